"""Token soup: concatenations of syntax-significant fragments interleaved with arbitrary text."""

from hypothesis import strategies as st

FRAGMENTS = [
    "```", "````", "~~~", "```{note}", "```{admonition} T", "```{include} f.md", "```{eval-rst}", "```{unknown}",
    "```{code-block} python", "```{figure} a.png", "```{image}", "```{math}", "```{raw} html", "```{csv-table}",
    "```{list-table}", "```{contents}", "```{role} x(raw)", "```{toctree}", "```{only} html", "```{glossary}",
    ":::", "::::", ":::{note}", ":::{tip}", ":::cls", "---", "...", "***", "___", "+++", "===", "# ", "## ", "###### ",
    "> ", ">", "- ", "* ", "+ ", "1. ", "1) ", "0. ", "    ", "\t", "| ", " | ", "|---|", "|:-:|", "[^", "[^a]", "[^a]: ",
    "](", "[", "]", "[x]: ", "[x][y]", "![", "<img", "<img src=\"a\">", "<img src>", "<img alt=\"#x y\" src=\"s\">",
    "<div class=\"admonition\">", "<div class=\"admonition note\">", "</div>", "<p class=\"title\">", "</p>", "<!--",
    "-->", "<![x", "<?", "<script>", "<", ">", "{{", "}}", "{{ x }}", "{{ 1/0 }}", "{{ x | bad }}", "{%", "%}", "$", "$$",
    "$$ (l)", "\\begin{equation}", "\\end{equation}", "\\begin{align*}", "|", "\\", "\\\n", "`", "``", "*", "**", "_", "__",
    "~~", "{", "}", "{#id .c k=v}", "{.c}", "{role}`x`", "{unknown}`x`", "{raw}`x`", "{math}`x`", "{ref}`x`", "{doc}`x`",
    "{sub-ref}`today`", "{abbr}`x (y)`", "(t)=", "(t)=\n", "% c", ":f: v", ":class: a", ":name: n", ":bogus:",
    "key: |", "a: \"\\UFFFFFFFF\"", "*x &x !!binary ? | >", ": ", "- - -", "&amp;", "&#0;", "&#x110000;", "&nosuch;",
    "http://", "https://e.org", "www.e.org", "<https://e.org>", "<project:#t>", "<project:f.md>", "<path:f.txt>",
    "<inv:#x>", "<inv:k:py:*#x*>", "(#t)", "(f.md)", "(f.md#s)", "(<a b>)", "(/abs)", "(" + "a" * 300 + ")",
    "(" + "d/" * 150 + "f.md)", "(%00)", "(\x00)", "\x00", "\ufeff", "\r", "\r\n", "\u2028", "\x85", "\x0b", "\x0c",
    "\U0001f600", "\u0301", "\u200b", "\xa0", "a" * 200, "\n", "\n\n", "\n\n\n", " ", "  ", "   ",
    "Term\n: Def", ": ", "[ ]", "[x]", "- [ ] ", "=", "--", "(c)", "(tm)", "'", '"', "'q'", '"q"',
    "[^\u00b2]", "[^\u00b2]: ", "[^\u0661]: ", "[^1]: ", "[^1]", "://[", "<inv://[x>", "(wiki://[x)", "(x://[)", "---\nmyst:\n  ",
    "url_schemes: [http]\n", "enable_extensions: [", "a: {2020-01-01: x}\n", "---\n",
]


def soup(max_frag: int = 24):
    piece = st.one_of(st.sampled_from(FRAGMENTS), st.sampled_from(FRAGMENTS), st.sampled_from(FRAGMENTS),
                      st.text(max_size=6), st.sampled_from(["word", "text ", "a b", "\n"]))
    return st.lists(piece, max_size=max_frag).map("".join)
