"""Front-end drivers: docutils (publish_doctree / bare Parser.parse), in-process Sphinx,
and the GFM route that works without linkify-it-py.

halt_level=5 is an explicit assumption of every docutils run: with docutils' default
(4) a SEVERE system message is converted into a SystemMessage exception by docutils
itself, at the user's request; Sphinx runs with 5 and the repository's own include
tests with 6.
"""

from __future__ import annotations

import io
import os
import re
import shutil
import tempfile
from contextlib import contextmanager

ANSI = re.compile(r"\x1b\[[0-9;]*m")


def base_settings(stream, extra=None) -> dict:
    s = {
        "warning_stream": stream,
        "halt_level": 5,
        "report_level": 1,
        "doctitle_xform": False,
        "sectsubtitle_xform": False,
        "output_encoding": "unicode",
        "embed_stylesheet": False,
        "myst_highlight_code_blocks": False,
        "_disable_config": True,  # never read docutils.conf from cwd / home
    }
    if extra:
        s.update(extra)
    return s


def config_to_settings(cfg) -> dict:
    """MdParserConfig (or dict of fields) -> myst_* docutils settings."""
    d = cfg if isinstance(cfg, dict) else {f.name: getattr(cfg, f.name) for f in cfg.get_fields()}
    out = {}
    for k, v in d.items():
        if k in ("ref_domains", "sub_delimiters", "update_mathjax", "mathjax_classes"):
            continue  # omitted for docutils
        out["myst_" + k] = v
    return out


def docutils_publish(text: str, *, source_path: str = "<string>", settings: dict | None = None):
    """parse + standard transform pipeline.  Returns (doctree, warnings_text)."""
    from docutils.core import publish_doctree

    from myst_parser.parsers.docutils_ import Parser

    stream = io.StringIO()
    doctree = publish_doctree(
        text, source_path=source_path, parser=Parser(),
        settings_overrides=base_settings(stream, settings),
    )
    return doctree, stream.getvalue()


def docutils_parse(text: str, *, source_path: str = "<string>", settings: dict | None = None):
    """Bare Parser.parse (no transforms).  Returns (document, warnings_text)."""
    from docutils.frontend import get_default_settings
    from docutils.utils import new_document

    from myst_parser.parsers.docutils_ import Parser

    stream = io.StringIO()
    parser = Parser()
    st = get_default_settings(Parser)
    for k, v in base_settings(stream, settings).items():
        setattr(st, k, v)
    document = new_document(source_path, st)
    parser.parse(text, document)
    return document, stream.getvalue()


def docutils_html(text: str, *, source_path: str = "<string>", settings: dict | None = None):
    from docutils.core import publish_string

    from myst_parser.parsers.docutils_ import Parser

    stream = io.StringIO()
    out = publish_string(
        text, source_path=source_path, parser=Parser(), writer_name="html5",
        settings_overrides=base_settings(stream, settings),
    )
    return out, stream.getvalue()


def gfm_parse(text: str, *, source_path: str = "<string>", extra_cfg: dict | None = None):
    """GFM mode without linkify-it-py: create_md_parser(gfm config) with the linkify rule
    disabled (prescribed by C17's observation note).  Returns (document, warnings_text)."""
    from docutils.frontend import get_default_settings
    from docutils.utils import new_document

    from myst_parser.config.main import MdParserConfig
    from myst_parser.mdit_to_docutils.base import DocutilsRenderer
    from myst_parser.parsers.docutils_ import Parser
    from myst_parser.parsers.mdit import create_md_parser

    stream = io.StringIO()
    st = get_default_settings(Parser)
    for k, v in base_settings(stream).items():
        setattr(st, k, v)
    document = new_document(source_path, st)
    cfg = MdParserConfig(gfm_only=True, **(extra_cfg or {}))
    md = gfm_markdown_it(cfg, DocutilsRenderer)
    md.options["document"] = document
    md.render(text)
    return document, stream.getvalue()


def gfm_markdown_it(cfg, renderer_cls):
    """create_md_parser for a gfm_only config; falls back to the linkify-less route."""
    from myst_parser.parsers.mdit import create_md_parser

    try:
        import linkify_it  # noqa: F401

        return create_md_parser(cfg, renderer_cls)
    except ImportError:
        pass
    # markdown-it refuses to *parse* with linkify on when linkify-it-py is missing;
    # building the parser is fine, so switch the option and rule off afterwards.
    md = create_md_parser(cfg, renderer_cls)
    md.options["linkify"] = False
    try:
        md.disable("linkify")
    except Exception:  # rule may be absent
        pass
    return md


def warning_lines(text: str) -> list[str]:
    return [ANSI.sub("", line) for line in text.splitlines() if line.strip()]


# --------------------------------------------------------------------------- Sphinx


class SphinxProject:
    """One real Sphinx application in a temp dir, reusable across documents."""

    def __init__(self, confoverrides: dict | None = None, files: dict[str, str] | None = None,
                 buildername: str = "html", parallel: int = 0, extensions=None, conf_text: str = ""):
        from docutils.parsers.rst import directives as _d, roles as _r

        self._saved = (dict(_d._directives), dict(_r._roles))
        from sphinx.application import Sphinx
        from sphinx.util.docutils import docutils_namespace

        self.tmp = tempfile.mkdtemp(prefix="verif-sphinx-")
        self.src = os.path.join(self.tmp, "src")
        self.out = os.path.join(self.tmp, "out")
        os.makedirs(self.src)
        with open(os.path.join(self.src, "conf.py"), "w") as fh:
            fh.write(conf_text)
        files = files or {"index.md": "# index\n"}
        for name, content in files.items():
            p = os.path.join(self.src, name)
            os.makedirs(os.path.dirname(p), exist_ok=True)
            mode = "wb" if isinstance(content, bytes) else "w"
            with open(p, mode) as fh:
                fh.write(content)
        self.status = io.StringIO()
        self.warning = io.StringIO()
        conf = {
            "extensions": ["myst_parser"] + list(extensions or []),
            "html_theme": "basic",
            "project": "verif",
            "exclude_patterns": ["_build"],
            "nitpicky": False,
        }
        conf.update(confoverrides or {})
        self._ns = docutils_namespace()
        self._ns.__enter__()
        self.app = Sphinx(
            self.src, self.src, self.out, os.path.join(self.tmp, "doctrees"), buildername,
            confoverrides=conf, status=self.status, warning=self.warning, freshenv=True,
            parallel=parallel, warningiserror=False,
        )

    def close(self):
        try:
            self._ns.__exit__(None, None, None)
        finally:
            from docutils.parsers.rst import directives as _d, roles as _r

            _d._directives.clear()
            _d._directives.update(self._saved[0])
            _r._roles.clear()
            _r._roles.update(self._saved[1])
            import logging

            lg = logging.getLogger("sphinx")
            for h in list(lg.handlers):
                lg.removeHandler(h)
            shutil.rmtree(self.tmp, ignore_errors=True)

    def __enter__(self):
        return self

    def __exit__(self, *a):
        self.close()

    def take_warnings(self) -> str:
        v = ANSI.sub("", self.warning.getvalue())
        self.warning.seek(0)
        self.warning.truncate()
        return v

    def build(self):
        self.app.build(force_all=True)
        return self.take_warnings()

    def read_doc(self, docname: str, text: str | None = None, post_transforms: bool = True):
        """(Re-)read one document through the real reader pipeline.  Returns (doctree, warnings)."""
        app = self.app
        env = app.env
        if text is not None:
            path = os.path.join(self.src, docname + ".md")
            os.makedirs(os.path.dirname(path), exist_ok=True)
            with open(path, "w", encoding="utf-8", errors="surrogatepass") as fh:
                fh.write(text)
        env.find_files(app.config, app.builder)
        app.events.emit("env-purge-doc", env, docname)
        env.clear_doc(docname)
        self.take_warnings()
        app.builder.read_doc(docname)
        # Sphinx caches the pickled doctree per docname; drop it so the re-read document is returned
        env._pickled_doctree_cache.pop(docname, None)
        env._write_doc_doctree_cache.pop(docname, None)
        doctree = env.get_doctree(docname)
        if post_transforms:
            env.apply_post_transforms(doctree, docname)
        return doctree, self.take_warnings()


@contextmanager
def sphinx_project(**kw):
    p = SphinxProject(**kw)
    try:
        yield p
    finally:
        p.close()


def sphinx_parse_pre(text: str, app_project: SphinxProject, docname: str = "index"):
    """MystParser.parse only (pre-transform doctree) inside a live Sphinx app."""
    from docutils.utils import new_document
    from sphinx.io import SphinxStandaloneReader  # noqa: F401

    from myst_parser.parsers.sphinx_ import MystParser

    app = app_project.app
    env = app.env
    env.prepare_settings(docname)
    from docutils.frontend import get_default_settings

    st = get_default_settings(MystParser)
    st.env = env
    for k, v in env.settings.items():
        setattr(st, k, v)
    st.halt_level = 5
    st.report_level = 1
    document = new_document(os.path.join(app_project.src, docname + ".md"), st)
    from sphinx.util.docutils import LoggingReporter

    document.reporter = LoggingReporter.from_reporter(document.reporter)
    parser = MystParser()
    parser.set_application(app)
    app_project.take_warnings()
    parser.parse(text, document)
    return document, app_project.take_warnings()
