"""Slug functions loaded by dotted path in C10 / C13."""


def raising(title: str) -> str:
    raise RuntimeError(f"slug function failed for {title!r}")


def upper_dash(title: str) -> str:
    return title.upper().replace(" ", "-")
NOT_A_FUNCTION = "importable, not callable"
