"""Known findings: read-only view of /verif/known_findings.json.

An *open* finding suppresses exactly the violations that carry its signature for
its property (signatures are computed by the oracles from the failing input class /
call site, see each check).  A *fixed* entry suppresses nothing.  Nothing here ever
writes the file.
"""

from __future__ import annotations

import json
import os
import sys

from .core import VERIF

PATH = os.path.join(VERIF, "known_findings.json")


def load_all() -> list[dict]:
    if not os.path.exists(PATH):
        return []
    with open(PATH) as fh:
        return json.load(fh)["findings"]


class Known:
    def __init__(self, prop: str):
        self.prop = prop
        self.open = [
            f for f in load_all() if f["property"] == prop and f["status"] == "open"
        ]
        self.signatures = {f["signature"] for f in self.open}

    def matches(self, v: dict) -> bool:
        return v.get("signature") in self.signatures

    def is_open(self, signature: str) -> bool:
        return signature in self.signatures

    def replay_open(self, mod) -> list[str]:
        """Replay each open finding's canonical reproducer with the plain oracle.

        Returns the KNOWN-FINDING payload lines for those that still fail.
        """
        lines = []
        for f in self.open:
            path = os.path.join(VERIF, f["reproducer"])
            with open(path) as fh:
                rep = json.load(fh)
            try:
                vs = mod.replay(rep["subcheck"], rep["input"])
            except Exception as exc:  # harness error - surface it loudly
                sys.stderr.write(
                    f"HARNESS-ERROR replaying {f['reproducer']}: {type(exc).__name__}: {exc}\n"
                )
                raise
            if any(v["signature"] == f["signature"] for v in vs):
                lines.append(f"{f['signature']}: {f['what']} [reproducer {f['reproducer']}]")
            else:
                sys.stderr.write(
                    f"note: open finding {f['signature']} no longer reproduces from "
                    f"{f['reproducer']} (tree changed?)\n"
                )
        return lines
