"""Shared runner machinery: sharded execution, Hypothesis driver, evidence, replay.

Every check module (checks/cNN_*.py) exposes

    PROPERTY      "C07"
    RULE          text: how cases are generated, what is distinct / non-trivial
    ASSUMPTIONS   list of strings
    FLOOR         minimum distinct non-trivial cases per tier {"quick": n, "thorough": n}
    plan(tier)    -> list[Sub]   (sub-checks with their shard counts)
    replay(sub, input) -> list[violation dict]   plain oracle, no Hypothesis, no pool

A sub-check function has signature fn(acc: Acc, shard: int, nshards: int, tier: str,
seed: int) and reports through the accumulator.
"""

from __future__ import annotations

import contextlib
import hashlib
import importlib
import json
import multiprocessing
import os
import signal
import sys
import time
import traceback
from collections import Counter
from dataclasses import dataclass, field
from typing import Any, Callable

VERIF = os.path.dirname(os.path.dirname(os.path.abspath(__file__)))
# VERIF_OUT (mutation testing only): write evidence / replays elsewhere so that a run against a
# mutated checkout never overwrites the evidence of the real tree
_OUT = os.environ.get("VERIF_OUT") or VERIF
EVIDENCE_DIR = os.path.join(_OUT, "evidence")
REPLAY_DIR = os.path.join(_OUT, "replays")

MAX_SAMPLES = 12
MAX_VIOLATIONS_PER_SHARD = 8


class HarnessError(BaseException):
    """An error of the machinery itself (never a property violation)."""


class CaseTimeout(Exception):
    """Raised by the per-case watchdog."""


@contextlib.contextmanager
def watchdog(seconds: int):
    """Per-case wall-clock guard, only so that a hang cannot wedge a worker."""

    def _handler(signum, frame):
        raise CaseTimeout(f"case exceeded {seconds}s")

    old = signal.signal(signal.SIGALRM, _handler)
    signal.alarm(seconds)
    try:
        yield
    finally:
        signal.alarm(0)
        signal.signal(signal.SIGALRM, old)


def canon(obj: Any) -> str:
    return json.dumps(obj, sort_keys=True, ensure_ascii=True, default=repr)


def digest(obj: Any) -> str:
    if not isinstance(obj, str):
        obj = canon(obj)
    return hashlib.blake2b(obj.encode("utf-8", "surrogatepass"), digest_size=8).hexdigest()


@dataclass
class Sub:
    name: str
    fn: Callable
    shards: int = 1
    # fraction of FLOOR this sub-check has to provide on its own (0 = no own floor)
    note: str = ""


class Acc:
    """Per-shard accumulator (picklable summary via .export())."""

    def __init__(self, prop: str, sub: str):
        self.prop = prop
        self.sub = sub
        self.evaluations = 0
        self.nontrivial: set[str] = set()
        self.classes: Counter = Counter()
        self.samples: list = []
        self.trivial_sample = None
        self.violations: list[dict] = []
        self.known_hits: Counter = Counter()
        self.excluded: Counter = Counter()
        self.inconclusive = 0
        self.unspecified: Counter = Counter()
        self.notes: list[str] = []
        self.exhaustive: bool | None = None
        self.extra: dict = {}

    def case(self, key: Any, nontrivial: bool, classes=(), sample: Any = None) -> None:
        """Record one evaluated case."""
        self.evaluations += 1
        for c in classes:
            self.classes[c] += 1
        if nontrivial:
            h = key if isinstance(key, str) and len(key) == 16 else digest(key)
            if h not in self.nontrivial:
                self.nontrivial.add(h)
                if sample is not None and len(self.samples) < MAX_SAMPLES:
                    self.samples.append(sample)
        elif sample is not None and self.trivial_sample is None:
            self.trivial_sample = sample

    def violation(self, signature: str, input: Any, expected: Any = None,
                  observed: Any = None, detail: str = "") -> dict:
        v = {
            "property": self.prop,
            "subcheck": self.sub,
            "signature": signature,
            "input": input,
            "expected": expected,
            "observed": observed,
            "detail": detail,
        }
        return v

    def export(self) -> dict:
        return {
            "sub": self.sub,
            "evaluations": self.evaluations,
            "nontrivial": self.nontrivial,
            "classes": dict(self.classes),
            "samples": self.samples or ([self.trivial_sample] if self.trivial_sample is not None else []),
            "violations": self.violations,
            "known_hits": dict(self.known_hits),
            "excluded": dict(self.excluded),
            "inconclusive": self.inconclusive,
            "unspecified": dict(self.unspecified),
            "notes": self.notes,
            "exhaustive": self.exhaustive,
            "extra": self.extra,
        }


# --------------------------------------------------------------------------
# Hypothesis driver


class _Found(Exception):
    """Signals to Hypothesis that the current case violates the property."""


def hyp_run(acc: Acc, strategy, predicate: Callable[[Any], list[dict]], *,
            max_examples: int, seed: int, is_known: Callable[[dict], bool],
            shrink: bool = True, stateful_machine=None) -> None:
    """Drive `predicate` over `strategy`.

    predicate(case) evaluates the oracle, records the case on `acc` and returns the
    list of violations of that case.  Violations matching a listed known finding are
    only counted; any other makes Hypothesis shrink and is stored (shrunk) on acc.
    Exceptions escaping the predicate are harness errors.
    """
    import hypothesis
    from hypothesis import HealthCheck, Phase, given, settings

    last: dict = {}

    phases = [Phase.generate] + ([Phase.shrink] if shrink else [])
    st = settings(
        max_examples=max_examples,
        database=None,
        deadline=None,
        derandomize=False,
        report_multiple_bugs=False,
        print_blob=False,
        verbosity=hypothesis.Verbosity.quiet,
        phases=phases,
        suppress_health_check=[HealthCheck.too_slow, HealthCheck.data_too_large,
                               HealthCheck.filter_too_much],
    )

    @hypothesis.seed(seed)
    @st
    @given(strategy)
    def _t(case):
        try:
            vs = predicate(case)
        except CaseTimeout:
            acc.inconclusive += 1
            return
        except (KeyboardInterrupt, MemoryError):
            raise
        except _Found:
            raise
        except Exception as exc:  # harness bug: do not let hypothesis shrink it
            raise HarnessError(
                f"predicate of {acc.prop}/{acc.sub} raised "
                f"{type(exc).__name__}: {exc}\n{traceback.format_exc()}"
            ) from exc
        new = []
        for v in vs:
            if is_known(v):
                acc.known_hits[v["signature"]] += 1
            else:
                new.append(v)
        if new:
            last["v"] = new
            raise _Found(new[0]["signature"])

    try:
        _t()
    except _Found:
        for v in last.get("v", [])[:1]:
            if len(acc.violations) < MAX_VIOLATIONS_PER_SHARD:
                acc.violations.append(v)


# --------------------------------------------------------------------------
# worker / pool


def _worker(args):
    modname, subname, shard, nshards, tier, seed = args
    os.environ["VERIF_IN_WORKER"] = "1"
    mod = importlib.import_module(modname)
    sub = {s.name: s for s in mod.plan(tier)}[subname]
    acc = Acc(mod.PROPERTY, subname)
    t0 = time.time()
    try:
        sub.fn(acc, shard, nshards, tier, seed)
    except HarnessError as exc:
        return {"sub": subname, "harness_error": str(exc)}
    except Exception as exc:
        return {
            "sub": subname,
            "harness_error": f"{type(exc).__name__}: {exc}\n{traceback.format_exc()}",
        }
    out = acc.export()
    out["wall_s"] = time.time() - t0
    out["shard"] = shard
    return out


def _replay_known(modname: str):
    from . import findings

    mod = importlib.import_module(modname)
    return findings.Known(mod.PROPERTY).replay_open(mod)


def glob_regress(prop: str) -> list[str]:
    import glob as _glob

    return _glob.glob(os.path.join(VERIF, "regress", prop, "*.json"))


def _replay_regress(modname: str, files: list[str]) -> list[dict]:
    """-> violations (each annotated with the regression file it came from)."""
    mod = importlib.import_module(modname)
    out = []
    for path in files:
        with open(path) as fh:
            rep = json.load(fh)
        try:
            vs = mod.replay(rep["subcheck"], rep["input"])
        except Exception as exc:  # noqa: BLE001
            raise HarnessError(f"replaying {path}: {type(exc).__name__}: {exc}") from exc
        for v in vs:
            v = dict(v)
            v["regress_file"] = os.path.relpath(path, VERIF)
            out.append(v)
    return out


def run_property(modname: str, tier: str, seed: int, workers: int) -> int:
    """Run all sub-checks of a property; write evidence; return the exit code."""
    from . import findings

    t0 = time.time()
    mod = importlib.import_module(modname)
    prop = mod.PROPERTY
    known = findings.Known(prop)

    # 1. replay the canonical reproducers of open findings (plain oracle), in a child process so that
    #    the parent (which the search workers are forked from) stays pristine
    if known.open:
        ctx0 = multiprocessing.get_context("fork")
        with ctx0.Pool(1, maxtasksperchild=1) as pool0:
            known_lines = pool0.apply(_replay_known, (modname,))
    else:
        known_lines = []

    # 1b. regression tier: saved minimal inputs of repaired defects (regress/<ID>/*.json), replayed with the plain oracle
    regress_files = sorted(glob_regress(prop))
    regress_violations: list[dict] = []
    if regress_files:
        ctx1 = multiprocessing.get_context("fork")
        with ctx1.Pool(1, maxtasksperchild=1) as pool1:
            regress_violations = pool1.apply(_replay_regress, (modname, regress_files))

    # stale replay files of this property would be confusing: start clean
    import glob

    for old_replay in glob.glob(os.path.join(REPLAY_DIR, f"{prop}-*.json")):
        os.unlink(old_replay)

    # 2. the generated search
    subs = mod.plan(tier)
    jobs = []
    for s in subs:
        for k in range(s.shards):
            jobs.append((modname, s.name, k, s.shards, tier, seed))
    results = []
    if workers <= 1 or len(jobs) == 1:
        for j in jobs:
            results.append(_worker(j))
    else:
        ctx = multiprocessing.get_context("fork")
        with ctx.Pool(min(workers, len(jobs)), maxtasksperchild=1) as pool:
            for r in pool.imap_unordered(_worker, jobs, chunksize=1):
                results.append(r)
    results.sort(key=lambda r: (r.get("sub", ""), r.get("shard", 0)))

    harness_errors = [r for r in results if "harness_error" in r]
    if harness_errors:
        shown = set()
        for r in harness_errors:
            if r["sub"] in shown:
                continue
            shown.add(r["sub"])
            sys.stderr.write(f"HARNESS-ERROR {prop}/{r['sub']}: {r['harness_error'][-3000:]}\n")
        return 2

    # 3. merge
    evaluations = 0
    nontrivial: set[str] = set()
    classes: Counter = Counter()
    known_hits: Counter = Counter()
    excluded: Counter = Counter()
    unspecified: Counter = Counter()
    samples: list = []
    violations: list[dict] = []
    inconclusive = 0
    notes: list[str] = []
    per_sub: dict[str, dict] = {}
    exhaustive_flags = []
    extra: dict = {}
    for r in results:
        evaluations += r["evaluations"]
        nontrivial |= {r["sub"] + ":" + h for h in r["nontrivial"]}
        classes.update({f"{r['sub']}:{k}": v for k, v in r["classes"].items()})
        known_hits.update(r["known_hits"])
        excluded.update(r["excluded"])
        unspecified.update(r["unspecified"])
        inconclusive += r["inconclusive"]
        notes.extend(r["notes"])
        violations.extend(r["violations"])
        ps = per_sub.setdefault(
            r["sub"], {"evaluations": 0, "distinct_nontrivial": 0, "wall_s": 0.0, "_nt": set()}
        )
        ps["evaluations"] += r["evaluations"]
        ps["_nt"] |= r["nontrivial"]
        ps["wall_s"] = round(max(ps["wall_s"], r["wall_s"]), 2)
        if r["exhaustive"] is not None:
            exhaustive_flags.append(r["exhaustive"])
        for k, v in r["extra"].items():
            if isinstance(v, int) and not isinstance(v, bool) and k.endswith("_evaluated"):
                extra[k] = extra.get(k, 0) + v
            elif isinstance(v, list):
                extra.setdefault(k, []).extend(v)
            else:
                extra.setdefault(k, v)
    for s in subs:
        got = [x for x in results if x["sub"] == s.name]
        take = max(1, MAX_SAMPLES // max(1, len(subs)))
        n = 0
        for x in got:
            for smp in x["samples"]:
                if n < take:
                    samples.append({"subcheck": s.name, "case": smp})
                    n += 1
    for ps in per_sub.values():
        ps["distinct_nontrivial"] = len(ps.pop("_nt"))

    # 4. classify violations (known findings never reach here unless unlisted)
    new_violations = []
    seen_sigs = set()
    for v in regress_violations + violations:
        if known.matches(v):
            known_hits[v["signature"]] += 1
            continue
        if v["signature"] in seen_sigs:
            continue
        seen_sigs.add(v["signature"])
        new_violations.append(v)

    os.makedirs(REPLAY_DIR, exist_ok=True)
    out_lines = []
    for v in new_violations:
        name = f"{prop}-{v['subcheck']}-{digest(v)}.json"
        path = os.path.join(REPLAY_DIR, name)
        with open(path, "w") as fh:
            json.dump(v, fh, indent=1, ensure_ascii=True, default=repr)
        out_lines.append(f"VIOLATION property={prop} replay=replays/{name}")
        sys.stderr.write(
            f"--- {prop}/{v['subcheck']} signature={v['signature']}\n"
            f"    input={canon(v['input'])[:600]}\n    expected={canon(v['expected'])[:400]}\n"
            f"    observed={canon(v['observed'])[:400]}\n    {v['detail'][:600]}\n"
        )

    floor = getattr(mod, "FLOOR", {}).get(tier, 2)
    vacuous = len(nontrivial) < max(2, floor)

    evidence = {
        "property_id": prop,
        "tier": tier,
        "seed": seed,
        "level": "exploration",
        "coverage": {
            "evaluations": evaluations,
            "distinct_nontrivial": len(nontrivial),
            "rule": mod.RULE,
            "samples": samples[:MAX_SAMPLES],
            "per_subcheck": per_sub,
            "classes": dict(sorted(classes.items())),
            "excluded_known": dict(excluded),
            "unspecified": dict(unspecified),
            "inconclusive": inconclusive,
            "known_findings_reconfirmed": known_lines,
            "regression_inputs_replayed": len(regress_files),
            "known_finding_hits_in_search": dict(known_hits),
            "notes": sorted(set(notes))[:40],
            **extra,
        },
        "assumptions": list(mod.ASSUMPTIONS),
        "wall_s": round(time.time() - t0, 2),
        "violations": len(new_violations),
    }
    if exhaustive_flags and all(exhaustive_flags) and len(exhaustive_flags) == len(results):
        evidence["coverage"]["exhaustive"] = True
    os.makedirs(EVIDENCE_DIR, exist_ok=True)
    with open(os.path.join(EVIDENCE_DIR, f"{prop}.json"), "w") as fh:
        json.dump(evidence, fh, indent=1, ensure_ascii=True, default=repr)
        fh.write("\n")

    for line in known_lines:
        print(f"KNOWN-FINDING: property={prop} {line}")
    for line in out_lines:
        print(line)
    print(
        f"{prop} tier={tier} seed={seed} evaluations={evaluations} "
        f"distinct_nontrivial={len(nontrivial)} violations={len(new_violations)} "
        f"known_hits={sum(known_hits.values())} inconclusive={inconclusive} "
        f"wall={evidence['wall_s']}s"
    )
    sys.stdout.flush()
    if new_violations:
        return 1
    # a sub-check that evaluated nothing decides nothing: say so loudly (a skipped fuzz campaign is announced in the notes)
    idle = [name for name, ps in per_sub.items() if ps["evaluations"] == 0 and not any("skipped" in n for n in notes)]
    if idle:
        sys.stderr.write(f"HARNESS-ERROR {prop}: sub-check(s) {idle} evaluated no case at all\n")
        return 2
    if vacuous:
        sys.stderr.write(
            f"HARNESS-ERROR {prop}: only {len(nontrivial)} distinct non-trivial cases "
            f"(floor {floor}) - generator is vacuous\n"
        )
        return 2
    return 0


def run_replay(modname: str, path: str) -> int:
    from . import findings

    mod = importlib.import_module(modname)
    with open(path) as fh:
        v = json.load(fh)
    known = findings.Known(mod.PROPERTY)
    vs = mod.replay(v["subcheck"], v["input"])
    bad = [x for x in vs if not known.matches(x)]
    for x in vs:
        tag = "KNOWN-FINDING:" if known.matches(x) else "VIOLATION"
        if tag == "VIOLATION":
            print(f"VIOLATION property={mod.PROPERTY} replay={path}")
        else:
            print(f"KNOWN-FINDING: property={mod.PROPERTY} {x['signature']}")
        sys.stderr.write(
            f"    signature={x['signature']}\n    expected={canon(x['expected'])[:800]}\n"
            f"    observed={canon(x['observed'])[:800]}\n    {x['detail'][:800]}\n"
        )
    if not vs:
        print(f"{mod.PROPERTY}: replay holds (no violation) for {path}")
    return 1 if bad else 0


def shard_seed(seed: int, shard: int, salt: int = 0) -> int:
    return seed * 100003 + shard * 101 + salt
