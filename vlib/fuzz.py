"""Driver for atheris (libFuzzer) campaigns.

A campaign runs in a subprocess (libFuzzer owns the process and exits it).  The target
script puts the semantic oracle inside TestOneInput and raises on a violation that is
not a listed known finding; libFuzzer then writes the crashing input as an artifact.
The parent re-checks every artifact with the plain oracle before reporting anything,
so the reproducible unit is the saved input, not the campaign.
"""

from __future__ import annotations

import glob
import json
import os
import re
import shutil
import subprocess
import sys
import tempfile

from .core import VERIF


def atheris_available() -> bool:
    try:
        sys.path.insert(0, os.path.join(VERIF, ".deps"))
        import atheris  # noqa: F401

        return True
    except Exception:
        return False


def run_campaign(acc, script: str, *, runs: int, seed: int, recheck, known,
                 max_len: int = 96, dictionary: list[str] | None = None,
                 seeds: list[bytes] | None = None, decode=None, timeout: int = 1500,
                 extra_args: list[str] | None = None) -> None:
    if not atheris_available():
        acc.notes.append("atheris not importable: fuzz campaign skipped")
        return
    decode = decode or (lambda b: b.decode("utf-8", "replace"))
    work = tempfile.mkdtemp(prefix="verif-fuzz-")
    try:
        corpus = os.path.join(work, "corpus")
        arts = os.path.join(work, "artifacts") + os.sep
        os.makedirs(corpus)
        os.makedirs(arts)
        for i, s in enumerate(seeds or []):
            with open(os.path.join(corpus, f"seed{i}"), "wb") as fh:
                fh.write(s)
        stats = os.path.join(work, "stats.json")
        argv = ["/venv/bin/python", os.path.join(VERIF, script), corpus,
                f"-runs={runs}", f"-seed={seed % (2**31 - 1) or 1}", f"-max_len={max_len}",
                f"-artifact_prefix={arts}", "-print_final_stats=1", "-timeout=30",
                "-rss_limit_mb=4096"] + list(extra_args or [])
        if dictionary:
            dpath = os.path.join(work, "dict.txt")
            with open(dpath, "w") as fh:
                for tok in dictionary:
                    esc = "".join(
                        ch if 32 < ord(ch) < 127 and ch not in '"\\' else "".join(
                            "\\x%02x" % b for b in ch.encode("utf-8"))
                        for ch in tok)
                    fh.write(f'"{esc}"\n')
            argv.append(f"-dict={dpath}")
        env = dict(os.environ)
        env["VERIF_FUZZ_STATS"] = stats
        env["PYTHONPATH"] = os.pathsep.join(([os.environ["VERIF_REPO"]] if os.environ.get("VERIF_REPO") else [])
                                            + [VERIF, os.path.join(VERIF, ".deps")])  # VERIF_REPO: mutation testing only
        try:
            proc = subprocess.run(argv, env=env, capture_output=True, text=True,
                                  errors="replace", timeout=timeout)
            err = proc.stderr
        except subprocess.TimeoutExpired as exc:
            err = (exc.stderr or b"").decode("utf-8", "replace") if isinstance(exc.stderr, bytes) else (exc.stderr or "")
            acc.notes.append(f"fuzz campaign {script} hit the wall-clock budget (inconclusive)")
        m = re.search(r"stat::number_of_executed_units:\s*(\d+)", err)
        execs = int(m.group(1)) if m else 0
        if os.path.exists(stats):
            with open(stats) as fh:
                st = json.load(fh)
            execs = max(execs, st.get("execs", 0))
            acc.evaluations += execs
            for h in st.get("nontrivial", []):
                acc.nontrivial.add(h)
            for k, v in st.get("classes", {}).items():
                acc.classes[k] += v
            for s in st.get("samples", []):
                if len(acc.samples) < 6:
                    acc.samples.append(s)
        else:
            acc.evaluations += execs
            if execs == 0:
                acc.notes.append("fuzz campaign produced no stats: " + err[-300:])
        acc.extra.setdefault("fuzz_campaigns", []).append(
            {"script": script, "runs_requested": runs, "executed": execs})
        for art in sorted(glob.glob(arts + "*")):
            with open(art, "rb") as fh:
                data = fh.read()
            case = decode(data)
            for v in recheck(case):
                if known.matches(v):
                    acc.known_hits[v["signature"]] += 1
                elif len(acc.violations) < 8:
                    acc.violations.append(v)
    finally:
        shutil.rmtree(work, ignore_errors=True)


class TargetStats:
    """Used inside a fuzz target: periodically persist counters for the parent."""

    def __init__(self):
        self.path = os.environ.get("VERIF_FUZZ_STATS")
        self.execs = 0
        self.nontrivial: set[str] = set()
        self.classes: dict[str, int] = {}
        self.samples: list = []

    def tick(self, every: int = 2000) -> None:
        self.execs += 1
        if self.path and self.execs % every == 0:
            self.flush()

    def flush(self) -> None:
        if not self.path:
            return
        tmp = self.path + ".tmp"
        with open(tmp, "w") as fh:
            json.dump({"execs": self.execs, "nontrivial": sorted(self.nontrivial)[:200000],
                       "classes": self.classes, "samples": self.samples[:6]}, fh, default=repr)
        os.replace(tmp, self.path)
