"""Grammar-based MyST document generator (Hypothesis) + serializer.

A document is a list of block dicts (JSON-serialisable).  `render(blocks)` returns the
Markdown text and annotates every block in place with "_line" (1-based first source
line), so ground truth about positions is available by construction.

Feature sets let each property take the sub-grammar it quantifies over.
"""

from __future__ import annotations

import copy

from hypothesis import strategies as st

# --------------------------------------------------------------------------- features

STATIC = {
    "para", "heading", "quote", "ul", "ol", "code", "icode", "hr", "table", "html",
    "em", "strong", "codespan", "link", "autolink", "image", "html_inline", "hardbreak", "softbreak",
}
GFM = STATIC | {"strike", "tasklist"}
MYST_STATIC = STATIC | {"math", "amsmath", "deflist", "fieldlist", "target", "comment", "blockbreak", "div",
                        "math_inline", "strike", "attrs", "reflink"}
DYNAMIC = {"directive", "role", "footnote", "subst", "eval_rst", "html_convertible"}
FULL = MYST_STATIC | DYNAMIC

ALL_EXTENSIONS = [
    "amsmath", "attrs_inline", "attrs_block", "colon_fence", "deflist", "dollarmath", "fieldlist",
    "html_admonition", "html_image", "replacements", "smartquotes", "strikethrough", "substitution", "tasklist",
]

SAFE_WORDS = ["alpha", "beta", "gamma", "delta", "word", "text", "foo", "bar", "Baz", "qux", "x1", "é中", "naïve",
              "ünï", "λ", "日本", "a", "I", "42"]
WILD_CHUNKS = ["*", "_", "`", "[", "]", "(", ")", "<", ">", "&", "\\", "#", "!", "|", "$", "~", ":", "{", "}", "^",
               "=", "+", "-", "'", '"', "&amp;", "&#35;", "\\*", "www.e.org", "http://e.org/a?b=1&c=2", "--", "...",
               "(c)", "1.", "%", "@", "\t", " ", " ", "\U0001f600"]


def words(wild: bool):
    base = st.sampled_from(SAFE_WORDS)
    if wild:
        base = st.one_of(base, base, base, st.sampled_from(WILD_CHUNKS), st.text(max_size=4))
    return base


def text_run(wild: bool, min_words=1, max_words=4):
    return st.lists(words(wild), min_size=min_words, max_size=max_words).map(" ".join)


# --------------------------------------------------------------------------- inline


def inline_st(features: set, wild: bool, depth: int = 2):
    def txt():
        return st.builds(lambda s: {"t": "text", "s": s}, text_run(wild))

    leaves = [txt(), txt(), txt()]
    if "codespan" in features:
        leaves.append(st.builds(lambda s: {"t": "codespan", "s": s}, text_run(wild, 1, 2)))
    if "autolink" in features:
        leaves.append(st.builds(lambda s: {"t": "autolink", "dest": s},
                                # (the text of an autolink is what is written, not the normalised destination)
                                st.sampled_from(["https://e.org/a", "http://x.y/z?q=1&r=2", "mailto:a@b.c", "jane@example.org",
                                                 "https://e.org/stra\u00dfe", "https://e.org/a%20b"])))
    if "image" in features:
        leaves.append(st.builds(lambda a, s, t: {"t": "image", "alt": a, "src": s, "title": t},
                                # (the alt text is the description's text content in source order, markup inside it included)
                                st.one_of(text_run(False, 0, 2), text_run(False, 0, 2),
                                          st.sampled_from(["fun *little* fish", "a **b *c* d** e", "x [l](u) y", "pre *mid*", "*first* then rest"])),
                                st.sampled_from(["img.png", "a/b.svg", "https://e.org/i.gif", "./fig.png", "img/../fig.png", "img//fig.png",
                                                 "img/", "../up.png", "//host/x.png"]),
                                st.sampled_from([None, None, "A title"])))
    if "html_inline" in features:
        leaves.append(st.builds(lambda s: {"t": "html_inline", "s": s},
                                st.sampled_from(["<b>", "</b>", "<span class=\"x\">", "</span>", "<br>", "<!-- c -->",
                                                 "<kbd>", "</kbd>"])))
    if "math_inline" in features:
        leaves.append(st.builds(lambda s: {"t": "math_inline", "s": s}, st.sampled_from(["a=1", "x^2", "\\alpha+b"])))
    if "hardbreak" in features:
        leaves.append(st.just({"t": "hardbreak"}))
    if "softbreak" in features:
        leaves.append(st.just({"t": "softbreak"}))
    if "role" in features:
        leaves.append(st.builds(lambda n, s: {"t": "role", "name": n, "s": s},
                                st.sampled_from(["emphasis", "strong", "literal", "code", "math", "sub", "sup",
                                                 "abbr", "unknownrole", "raw", "title-reference", "ref", "doc"]),
                                text_run(False, 1, 2)))
    if "footnote" in features:
        leaves.append(st.builds(lambda l: {"t": "footref", "label": l}, st.sampled_from(["a", "b", "1", "note", "zz"])))
    if "subst" in features:
        leaves.append(st.builds(lambda k: {"t": "subst", "key": k}, st.sampled_from(["key1", "key2", "missing", "cyc"])))
    if "reflink" in features:
        leaves.append(st.builds(lambda l, s: {"t": "reflink", "label": l, "s": s}, st.sampled_from(["ref1", "ref2", "nodef"]),
                                text_run(False, 1, 2)))
    leaf = st.one_of(*leaves)
    if depth <= 0:
        return st.lists(leaf, min_size=1, max_size=3)

    def extend(children):
        seq = st.lists(children, min_size=1, max_size=3)
        opts = []
        if "em" in features:
            opts.append(st.builds(lambda ch: {"t": "em", "ch": ch}, seq))
        if "strong" in features:
            opts.append(st.builds(lambda ch: {"t": "strong", "ch": ch}, seq))
        if "strike" in features:
            opts.append(st.builds(lambda ch: {"t": "strike", "ch": ch}, seq))
        if "link" in features:
            opts.append(st.builds(lambda ch, d, t: {"t": "link", "ch": ch, "dest": d, "title": t}, seq,
                                  st.sampled_from(["https://e.org", "http://e.org/a?b=1&c=2", "#target", "other.md",
                                                   "other.md#sec", "nosuch", "mailto:x@y.z", "ftp://h/f", "", "/abs/p.md",
                                                   "a b", "inv:#x", "project:#t", "path:f.txt", "x:y", "#",
                                                   # destinations that need percent-encoding (carried over as written)
                                                   "#a%20b", "#%C3%BCber", "http://e.org/a%20b?q=%C3%A9", "a%20b.md", "#über"]),
                                  st.sampled_from([None, None, "Link title"])))
        if "attrs" in features:
            opts.append(st.builds(lambda ch, a: {"t": "span", "ch": ch, "attrs": a}, seq,
                                  st.sampled_from([".cls", "#sid", ".a .b", "k=v", "#i2 .c"])))
        return st.one_of(*opts) if opts else children

    node = st.recursive(leaf, extend, max_leaves=6)
    return st.lists(node, min_size=1, max_size=4)


def render_inline(nodes, ctx=None) -> str:
    """Inline AST -> markdown.  Adjacent constructs are separated by a space so that
    delimiter runs stay well-formed."""
    parts = []
    for n in nodes:
        t = n["t"]
        if t == "text":
            parts.append(n["s"])
        elif t == "codespan":
            s = n["s"]
            tick = "``" if "`" in s else "`"
            parts.append(f"{tick}{s}{tick}")
        elif t == "em":
            parts.append("*" + render_inline(n["ch"]) + "*")
        elif t == "strong":
            parts.append("**" + render_inline(n["ch"]) + "**")
        elif t == "strike":
            parts.append("~~" + render_inline(n["ch"]) + "~~")
        elif t == "link":
            dest = n["dest"]
            if " " in dest or dest == "":
                dest = f"<{dest}>"
            title = f' "{n["title"]}"' if n.get("title") else ""
            parts.append("[" + render_inline(n["ch"]) + f"]({dest}{title})")
        elif t == "autolink":
            parts.append(f"<{n['dest']}>")
        elif t == "reflink":
            parts.append(f"[{n['s']}][{n['label']}]")
        elif t == "image":
            title = f' "{n["title"]}"' if n.get("title") else ""
            parts.append(f"![{n['alt']}]({n['src']}{title})")
        elif t == "html_inline":
            parts.append(n["s"])
        elif t == "math_inline":
            parts.append(f"${n['s']}$")
        elif t == "hardbreak":
            parts.append("\\\n")
        elif t == "softbreak":
            parts.append("\n")
        elif t == "role":
            parts.append("{" + n["name"] + "}`" + n["s"] + "`")
        elif t == "footref":
            parts.append(f"[^{n['label']}]")
        elif t == "subst":
            parts.append("{{ " + n["key"] + " }}")
        elif t == "span":
            parts.append("[" + render_inline(n["ch"]) + "]{" + n["attrs"] + "}")
    out = " ".join(parts)
    # a line of a paragraph must not be empty or start with block syntax by accident
    lines = [ln.strip() for ln in out.split("\n")]
    lines = [ln if ln else "x" for ln in lines]
    return "\n".join(lines)


# --------------------------------------------------------------------------- blocks

ADMONITIONS = ["note", "warning", "tip", "important", "admonition", "attention", "hint", "seealso"]
OTHER_DIRECTIVES = ["code-block", "image", "figure", "math", "container", "topic", "sidebar", "rubric", "epigraph",
                    "parsed-literal", "list-table", "csv-table", "contents", "class", "raw", "unknown-directive",
                    "table", "compound", "highlights", "pull-quote", "line-block", "replace", "role", "meta", "title",
                    "date", "sectnum", "header", "footer", "target-notes", "default-role", "unicode"]


_BLOCKS_CACHE: dict = {}


def blocks_st(features: set, wild: bool = False, depth: int = 3, max_blocks: int = 5, headings: bool = True):
    """Cached: building (and validating) the recursive strategy afresh for every draw dominates the run time."""
    key = (frozenset(features), wild, depth, max_blocks, headings)
    if key not in _BLOCKS_CACHE:
        _BLOCKS_CACHE[key] = _blocks_st(set(features), wild, depth, max_blocks, headings)
    return _BLOCKS_CACHE[key]


def _blocks_st(features: set, wild: bool = False, depth: int = 3, max_blocks: int = 5, headings: bool = True):
    inl = inline_st(features, wild)
    inl_nobreak = inline_st(features - {"hardbreak", "softbreak"}, wild, depth=1)

    leaves = [st.builds(lambda i: {"t": "para", "inl": i}, inl)] * 3
    if "heading" in features and headings:
        leaves.append(st.builds(lambda L, i, s: {"t": "heading", "level": L, "inl": i, "setext": s and L <= 2},
                                st.integers(1, 6), inl_nobreak, st.booleans()))
    if "code" in features:
        leaves.append(st.builds(
            lambda f, n, lang, txt: {"t": "code", "fence": f, "len": n, "lang": lang, "text": txt},
            st.sampled_from(["`", "~"]), st.integers(3, 5),
            st.sampled_from(["", "", "python", "c++", "text", "none", "{unknownlang}x", "python title", "python\ttitle", "c  two  spaces",
                             "text {1,3}"]),
            st.lists(st.one_of(text_run(wild, 0, 3), st.sampled_from(["", "  indented", "\tx", "# not heading",
                                                                       "> not quote", "- not list", "</div>"])),
                     max_size=4).map("\n".join)))
    if "icode" in features:
        leaves.append(st.builds(lambda txt: {"t": "icode", "text": txt},
                                st.lists(text_run(wild, 1, 3), min_size=1, max_size=3).map("\n".join)))
    if "hr" in features:
        leaves.append(st.builds(lambda m: {"t": "hr", "mark": m}, st.sampled_from(["***", "---", "___", "* * *"])))
    if "html" in features:
        leaves.append(st.builds(lambda s: {"t": "html", "text": s},
                                st.sampled_from(["<div>\nhtml *text*\n</div>", "<!-- a comment -->", "<hr/>",
                                                 "<p class=\"c\">para</p>", "<table><tr><td>x</td></tr></table>",
                                                 "<script>\nalert(1)\n</script>", "<?php echo 1; ?>", "<!DOCTYPE html>",
                                                 "<custom-tag attr=\"1\">\ninner\n</custom-tag>",
                                                 "<p>lead</p>\n<em>Figure 1</em>"])))
    if "html_convertible" in features:
        leaves.append(st.builds(lambda s: {"t": "html", "text": s},
                                st.sampled_from(['<img src="a.png" alt="alt text" width="100px">',
                                                 '<img src="b.png" class="c1 c2" align="left" height="10">',
                                                 '<div class="admonition note">\n<p class="title">Title</p>\n<p>Body *md*</p>\n</div>',
                                                 '<div class="admonition">\nplain\n</div>', '<img alt="no src">',
                                                 '<img src="x.png" alt="#hash: colon">', "<img src>"])))
    if "table" in features:
        def mk_table(ncol, aligns, head, rows):
            return {"t": "table", "align": aligns[:ncol], "head": head[:ncol], "rows": [r[:ncol] for r in rows]}

        cell = inline_st(features - {"hardbreak", "softbreak", "html_inline"}, False, depth=1)
        leaves.append(st.integers(1, 3).flatmap(lambda n: st.builds(
            mk_table, st.just(n), st.lists(st.sampled_from(["", ":-", "-:", ":-:"]), min_size=n, max_size=n),
            st.lists(cell, min_size=n, max_size=n), st.lists(st.lists(cell, min_size=n, max_size=n), max_size=3))))
    if "math" in features:
        leaves.append(st.builds(lambda s, l: {"t": "math", "text": s, "label": l},
                                st.sampled_from(["a = 1", "x^2 + y^2\n= z^2", "\\int_0^1 f"]),
                                st.sampled_from([None, None, "eq1", "eq-2"])))
    if "amsmath" in features:
        leaves.append(st.builds(lambda e, s: {"t": "amsmath", "env": e, "text": s},
                                st.sampled_from(["equation", "align*", "gather"]), st.sampled_from(["a &= 1", "x + y"])))
    if "target" in features:
        leaves.append(st.builds(lambda n: {"t": "target", "name": n}, st.sampled_from(["target", "t2", "My Target", "sec"])))
    if "comment" in features:
        leaves.append(st.builds(lambda s: {"t": "comment", "text": s}, text_run(False)))
    if "blockbreak" in features:
        leaves.append(st.builds(lambda s: {"t": "blockbreak", "text": s}, st.sampled_from(["", "meta"])))
    if "subst" in features:
        leaves.append(st.builds(lambda k: {"t": "subst_block", "key": k}, st.sampled_from(["key1", "blockkey", "missing", "cyc"])))
    if "reflink" in features:
        leaves.append(st.builds(lambda l, d: {"t": "refdef", "label": l, "dest": d}, st.sampled_from(["ref1", "ref2", "ref1"]),
                                st.sampled_from(["https://e.org/r", "#target", "other.md"])))
    if "eval_rst" in features:
        leaves.append(st.builds(lambda s: {"t": "eval_rst", "text": s},
                                st.sampled_from(["A *rst* paragraph.", ".. note::\n\n   rst note", "- rst\n- list",
                                                 ":unknownrole:`x`", ".. unknown::", "Title\n=====\n\ntext",
                                                 ".. _rsttarget:\n\npara", ".. raw:: html\n\n   <b>raw</b>"])))
    if "directive" in features:
        leaves.append(st.builds(
            lambda name, arg, raw, opts, style, f, n: {"t": "directive", "name": name, "arg": arg, "raw": raw,
                                                        "opts": opts, "optstyle": style, "fence": f, "len": n,
                                                        "blank": 0, "ch": None},
            st.sampled_from(OTHER_DIRECTIVES), st.sampled_from(["", "", "python", "Title text", "a.png", "html"]),
            st.sampled_from(["", "x = 1", "content *md*", "- a\n- b", "* - a\n  - b\n* - c\n  - d", "a, b\nc, d",
                             "<b>x</b>"]),
            st.lists(st.tuples(st.sampled_from(["class", "name", "width", "alt", "linenos", "header-rows", "bogus",
                                                "format", "depth"]),
                               st.sampled_from(["", "a", "1", "10px", "x y"])), max_size=2),
            st.sampled_from(["colon", "dash"]), st.sampled_from(["`", ":"]), st.integers(3, 4)))
    leaf = st.one_of(*leaves)

    def extend(children):
        seq = st.lists(children, min_size=1, max_size=3)
        opts = []
        if "quote" in features:
            opts.append(st.builds(lambda ch: {"t": "quote", "ch": ch}, seq))
        if "ul" in features:
            opts.append(st.builds(lambda m, tight, items: {"t": "ul", "marker": m, "tight": tight, "items": items},
                                  st.sampled_from("-*+"), st.booleans(), st.lists(seq, min_size=1, max_size=3)))
        if "ol" in features:
            opts.append(st.builds(lambda s, d, tight, items: {"t": "ol", "start": s, "delim": d, "tight": tight,
                                                              "items": items},
                                  st.sampled_from([1, 1, 0, 2, 7, 10, 123]), st.sampled_from(".)"), st.booleans(),
                                  st.lists(seq, min_size=1, max_size=3)))
        if "tasklist" in features:
            opts.append(st.builds(lambda items: {"t": "ul", "marker": "-", "tight": True, "items": items, "task": True},
                                  st.lists(seq, min_size=1, max_size=2)))
        if "deflist" in features:
            opts.append(st.builds(lambda items: {"t": "deflist", "items": items},
                                  st.lists(st.tuples(inl_nobreak, seq), min_size=1, max_size=2)))
        if "fieldlist" in features:
            opts.append(st.builds(lambda items: {"t": "fieldlist", "items": items},
                                  st.lists(st.tuples(st.sampled_from(["field", "param x", "returns"]), seq),
                                           min_size=1, max_size=2)))
        if "div" in features:
            opts.append(st.builds(lambda nm, ch, n: {"t": "div", "name": nm, "ch": ch, "len": n},
                                  st.sampled_from(["", "", "cls"]), seq, st.integers(3, 5)))
        if "directive" in features:
            opts.append(st.builds(
                lambda name, title, opts_, style, blank, f, ch: {"t": "directive", "name": name,
                                                                 "arg": title if name == "admonition" else "",
                                                                 "raw": None, "opts": opts_, "optstyle": style,
                                                                 "blank": blank, "fence": f, "len": None, "ch": ch},
                st.sampled_from(ADMONITIONS), st.sampled_from(["A Title", "T"]),
                st.lists(st.tuples(st.sampled_from(["class", "name", "bogus"]), st.sampled_from(["c1", "n1", ""])),
                         max_size=2, unique_by=lambda x: x[0]),
                st.sampled_from(["colon", "dash"]), st.integers(0, 2), st.sampled_from(["`", ":"]), seq))
        if "footnote" in features:
            opts.append(st.builds(lambda l, ch: {"t": "footdef", "label": l, "ch": ch},
                                  st.sampled_from(["a", "b", "1", "note", "unused", "a"]), seq))
        return st.one_of(*opts) if opts else children

    node = st.recursive(leaf, extend, max_leaves=10)
    return st.lists(node, min_size=1, max_size=max_blocks)


# --------------------------------------------------------------------------- serializer


def max_fence(blocks, ch: str) -> int:
    """Longest fence of character `ch` needed by any descendant (for nesting directives)."""
    m = 0
    for b in blocks:
        t = b["t"]
        if t == "code" and b["fence"] == ch:
            m = max(m, b["len"])
        if t == "directive" and b["fence"] == ch:
            m = max(m, _dir_len(b))
        if t == "div" and ch == ":":
            m = max(m, _div_len(b))
        if t == "eval_rst" and ch == "`":
            m = max(m, 3)
        for key in ("ch",):
            if b.get(key):
                m = max(m, max_fence(b[key], ch))
        if t in ("ul", "ol"):
            for it in b["items"]:
                m = max(m, max_fence(it, ch))
        if t in ("deflist", "fieldlist"):
            for _k, it in b["items"]:
                m = max(m, max_fence(it, ch))
    return m


def _dir_len(b) -> int:
    if b.get("ch") is None:
        return b["len"] or 3
    inner = max_fence(b["ch"], b["fence"])
    return max(3, inner + 1)


def _div_len(b) -> int:
    return max(3, max_fence(b["ch"], ":") + 1)


def render_blocks(blocks, line0: int = 1):
    """-> list of lines; annotates blocks with '_line'.  Blocks are separated by one blank line."""
    lines: list[str] = []
    for i, b in enumerate(blocks):
        if i:
            lines.append("")
        b["_line"] = line0 + len(lines)
        lines.extend(render_block(b, line0 + len(lines)))
    return lines


def _prefix(lines, first: str, rest: str):
    out = []
    for i, ln in enumerate(lines):
        p = first if i == 0 else rest
        out.append((p + ln).rstrip() if not ln else p + ln)
    return out


def render_block(b, line0: int):
    t = b["t"]
    if t == "para":
        txt = render_inline(b["inl"])
        ls = txt.split("\n")
        # keep a paragraph line from being read as another block construct
        return [("\\" + ln if ln[:1] in "#>-+*=|:" or ln[:3] in ("```", "~~~") or ln[:2].rstrip(".)").isdigit() and
                 ln[:1].isdigit() else ln) for ln in ls]
    if t == "heading":
        txt = render_inline(b["inl"]).replace("\n", " ")
        if b.get("setext"):
            return [txt if not txt[:1] in "#>-+*=|:" else "\\" + txt, ("=" if b["level"] == 1 else "-") * 5]
        return ["#" * b["level"] + " " + txt]
    if t == "quote":
        inner = render_blocks(b["ch"], line0)
        return [("> " + ln) if ln else ">" for ln in inner]
    if t in ("ul", "ol"):
        out = []
        for k, item in enumerate(b["items"]):
            if k and not b["tight"]:
                out.append("")
            marker = (b["marker"] if t == "ul" else f"{b['start'] + k}{b['delim']}") + " "
            if b.get("task"):
                marker += "[x] " if k % 2 else "[ ] "
            inner = render_blocks(item, line0 + len(out))
            pad = " " * len(marker if not b.get("task") else marker[:2])
            if b.get("task"):
                pad = "  "
            out.extend((marker + ln) if j == 0 else ((pad + ln) if ln else "") for j, ln in enumerate(inner))
        return out
    if t == "code":
        f = b["fence"] * b["len"]
        body = b["text"].split("\n") if b["text"] else []
        # a body line must not close the fence
        body = [(" " + ln if ln.lstrip().startswith(b["fence"] * 3) else ln) for ln in body]
        return [f + b["lang"]] + body + [f]
    if t == "icode":
        return ["    " + ln for ln in b["text"].split("\n")]
    if t == "hr":
        return [b["mark"]]
    if t == "html":
        return b["text"].split("\n")
    if t == "table":
        def row(cells):
            return "| " + " | ".join(render_inline(c).replace("\n", " ").replace("|", "\\|") for c in cells) + " |"

        sep = "| " + " | ".join({"": "---", ":-": ":--", "-:": "--:", ":-:": ":-:"}[a] for a in b["align"]) + " |"
        return [row(b["head"]), sep] + [row(r) for r in b["rows"]]
    if t == "math":
        body = b["text"].split("\n")
        tail = "$$" + (f" ({b['label']})" if b.get("label") else "")
        return ["$$"] + body + [tail]
    if t == "amsmath":
        return [f"\\begin{{{b['env']}}}", b["text"], f"\\end{{{b['env']}}}"]
    if t == "target":
        return [f"({b['name']})="]
    if t == "comment":
        return ["% " + b["text"]]
    if t == "blockbreak":
        return [("+++ " + b["text"]).rstrip()]
    if t == "subst_block":
        return ["{{ " + b["key"] + " }}"]
    if t == "refdef":
        return [f"[{b['label']}]: {b['dest']}"]
    if t == "eval_rst":
        return ["```{eval-rst}"] + b["text"].split("\n") + ["```"]
    if t == "deflist":
        out = []
        for k, (term, defs) in enumerate(b["items"]):
            if k:
                out.append("")
            term_line = render_inline(term).replace("\n", " ")
            if term_line[:1] in "#>-+*=|:" or term_line[:3] in ("```", "~~~"):
                term_line = "\\" + term_line   # keep the term from being read as another block construct (e.g. a fence)
            out.append(term_line)
            inner = render_blocks(defs, line0 + len(out))
            out.extend((": " + ln) if j == 0 else (("  " + ln) if ln else "") for j, ln in enumerate(inner))
        return out
    if t == "fieldlist":
        out = []
        for name, body in b["items"]:
            inner = render_blocks(body, line0 + len(out))
            first = f":{name}: "
            out.extend((first + ln) if j == 0 else (("  " + ln) if ln else "") for j, ln in enumerate(inner))
        return out
    if t == "div":
        f = ":" * _div_len(b)
        inner = render_blocks(b["ch"], line0 + 1)
        return [f + b["name"]] + inner + [f]
    if t == "footdef":
        inner = render_blocks(b["ch"], line0)
        first = f"[^{b['label']}]: "
        return [(first + ln) if j == 0 else (("    " + ln) if ln else "") for j, ln in enumerate(inner)]
    if t == "directive":
        f = b["fence"] * _dir_len(b)
        head = f + "{" + b["name"] + "}" + ((" " + b["arg"]) if b["arg"] else "")
        opt_lines = []
        if b["opts"]:
            if b["optstyle"] == "colon":
                opt_lines = [f":{k}: {v}".rstrip() for k, v in b["opts"]]
            else:
                opt_lines = ["---"] + [f"{k}: {v}".rstrip() for k, v in b["opts"]] + ["---"]
        pre = [head] + opt_lines + [""] * b.get("blank", 0)
        if b.get("ch") is not None:
            first = b["ch"][0] if b["ch"] else None
            # documented: a body that starts with ':' or '---' needs a blank line after the head
            if not opt_lines and not b.get("blank") and first is not None and first["t"] in (
                    "fieldlist", "hr", "div", "directive", "deflist", "table", "para", "heading", "blockbreak"):
                probe = render_block(copy.deepcopy(first), 0)[0]
                # (a colon-fence directive may start directly with a nested ':::' fence: MyST handles that itself)
                if (probe.startswith(":") and not (b["fence"] == ":" and probe.startswith(":::"))) or probe.startswith("---"):
                    pre.append("")
            elif opt_lines and b["optstyle"] == "colon" and not b.get("blank") and first is not None:
                # a ':k: v' option block ends at the first line that does not start with ':'
                probe = render_block(copy.deepcopy(first), 0)[0]
                if probe.lstrip().startswith(":"):
                    pre.append("")
            inner = render_blocks(b["ch"], line0 + len(pre))
            return pre + inner + [f]
        body = b["raw"].split("\n") if b["raw"] else []
        return pre + body + [f]
    raise ValueError(t)


def render(blocks, front_matter: str | None = None):
    """-> text.  Annotates blocks with '_line'."""
    pre = []
    if front_matter is not None:
        pre = ["---"] + front_matter.split("\n") + ["---", ""]
    lines = pre + render_blocks(blocks, 1 + len(pre))
    return "\n".join(lines) + "\n"


def walk_blocks(blocks):
    for b in blocks:
        yield b
        if b.get("ch"):
            yield from walk_blocks(b["ch"])
        if b["t"] in ("ul", "ol"):
            for it in b["items"]:
                yield from walk_blocks(it)
        if b["t"] in ("deflist", "fieldlist"):
            for _k, it in b["items"]:
                yield from walk_blocks(it)


def kinds(blocks) -> set:
    return {b["t"] for b in walk_blocks(blocks)}


def depth_of(blocks) -> int:
    d = 0
    for b in blocks:
        sub = []
        if b.get("ch"):
            sub.append(b["ch"])
        if b["t"] in ("ul", "ol"):
            sub.extend(b["items"])
        if b["t"] in ("deflist", "fieldlist"):
            sub.extend(it for _k, it in b["items"])
        d = max(d, 1 + max((depth_of(s) for s in sub), default=0))
    return d


# --------------------------------------------------------------------------- config strategy


def config_st(allow_modes: bool = True):
    """Valid MdParserConfig keyword dicts (JSON-serialisable)."""
    ext = st.lists(st.sampled_from(ALL_EXTENSIONS), unique=True, max_size=len(ALL_EXTENSIONS))
    base = {
        "enable_extensions": ext,
        "heading_anchors": st.sampled_from([0, 0, 1, 2, 3, 6, 7]),
        "footnote_sort": st.booleans(),
        "footnote_transition": st.booleans(),
        "all_links_external": st.sampled_from([False, False, False, True]),
        "links_external_new_tab": st.booleans(),
        "title_to_header": st.booleans(),
        "enable_checkboxes": st.booleans(),
        "dmath_allow_labels": st.booleans(),
        "dmath_double_inline": st.booleans(),
        "highlight_code_blocks": st.booleans(),
        "number_code_blocks": st.sampled_from([[], ["python"], ["python", "text"]]),
        "fence_as_directive": st.sampled_from([[], ["note"], ["python", "unknown-directive"]]),
        "url_schemes": st.sampled_from([None, ["http", "https"], {"http": None, "wiki": "https://w.org/{{path}}"},
                                        {"x": {"url": "https://x/{{path}}#{{fragment}}", "title": "X {{path}}",
                                               "classes": ["c"]}}]),
        "substitutions": st.sampled_from([{}, {"key1": "value *1*", "key2": 3, "blockkey": "- a\n- b",
                                               "cyc": "{{ cyc }}"}]),
        "html_meta": st.sampled_from([{}, {"keywords": "a, b", "description lang=en": "d"}, {"bad key =": "x"}]),
        "disable_syntax": st.sampled_from([[], [], ["emphasis"], ["table", "link"], ["html_block", "html_inline"]]),
        "suppress_warnings": st.sampled_from([[], [], ["myst.header"], ["myst"], ["myst.xref_missing", "myst.strikethrough"]]),
        "words_per_minute": st.sampled_from([200, 1]),
    }
    if allow_modes:
        base["commonmark_only"] = st.sampled_from([False, False, False, False, True])

    def clean(d):
        if d.get("url_schemes") is None:
            d.pop("url_schemes")
        return d

    return st.fixed_dictionaries(base).map(clean)
