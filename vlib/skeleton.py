"""Abstract skeletons for C02: token tree -> expected skeleton, doctree -> observed skeleton.

A skeleton is a nested list of tuples (KIND, attrs..., children | text).  Both sides go through the same
normalisation (adjacent text merged, empty text dropped).  Anything outside the static syntax raises Unsupported,
so a case is either compared in full or not at all.
"""

from __future__ import annotations


class Unsupported(Exception):
    pass


def _strip1(s: str) -> str:
    return s[:-1] if s.endswith("\n") else s


def norm(items):
    """Merge adjacent text leaves, drop empty ones (recursively applied by the builders)."""
    out = []
    for it in items:
        if it[0] == "T":
            if not it[1]:
                continue
            if out and out[-1][0] == "T":
                out[-1] = ("T", out[-1][1] + it[1])
                continue
        out.append(it)
    return out


# --------------------------------------------------------------------------- token side

DROP_TOKENS = {"myst_target", "myst_line_comment", "myst_block_break"}


def tokens_to_skeleton(md, text, env=None):
    from markdown_it.tree import SyntaxTreeNode

    env = {} if env is None else env
    tokens = md.parse(text, env)
    root = SyntaxTreeNode(tokens)
    return norm(_tok_children(root, md, env))


def _tok_children(node, md, env):
    out = []
    for ch in node.children or []:
        out.extend(_tok(ch, md, env))
    return norm(out)


def _alt_text(node):
    """CommonMark: the alt text is the plain string content of the image description (markdown-it's rule: text content
    of text tokens, recursively; soft breaks are line breaks)."""
    s = ""
    for ch in node.children or []:
        if ch.type == "text":
            s += ch.content
        elif ch.type == "softbreak":
            s += "\n"
        else:
            s += _alt_text(ch)
    return s


def _tok(n, md, env):
    t = n.type
    if t in DROP_TOKENS:
        return []
    if t == "inline":
        return _tok_children(n, md, env)
    if t == "text":
        return [("T", n.content)]
    if t == "softbreak":
        return [("T", "\n")]
    if t == "hardbreak":
        return [("BREAK",)]
    if t == "paragraph":
        return [("P", _tok_children(n, md, env))]
    if t == "heading":
        return [("H", _tok_children(n, md, env))]
    if t == "blockquote":
        return [("QUOTE", _tok_children(n, md, env))]
    if t == "bullet_list":
        return [("UL", _tok_children(n, md, env))]
    if t == "ordered_list":
        start = n.attrs.get("start", 1)
        return [("OL", str(start), n.markup, _tok_children(n, md, env))]
    if t == "list_item":
        return [("LI", _tok_children(n, md, env))]
    if t == "em":
        return [("EM", _tok_children(n, md, env))]
    if t == "strong":
        return [("STRONG", _tok_children(n, md, env))]
    if t == "s":
        return [("RAW", "<s>")] + _tok_children(n, md, env) + [("RAW", "</s>")]
    if t == "link":
        href = str(n.attrs.get("href", ""))
        if href.startswith("inv:") and not md.options["myst_config"].commonmark_only and not md.options["myst_config"].gfm_only:
            raise Unsupported("inventory link")   # resolved against inventories at render time: dynamic, C19's business
        return [("LINK", href, _tok_children(n, md, env))]
    if t == "image":
        return [("IMG", str(n.attrs.get("src", "")), _alt_text(n), n.attrs.get("title"))]
    if t == "code_inline":
        return [("CODE", n.content)]
    if t == "code_block":
        return [("CODEBLOCK", "", _strip1(n.content))]
    if t == "fence":
        info = (n.info or "").strip()
        lang = info.split()[0] if info else ""
        if lang.startswith("{"):
            raise Unsupported("directive fence")
        return [("CODEBLOCK", lang, _strip1(n.content))]
    if t in ("html_block", "html_inline"):
        return [("RAW", n.content)]
    if t in ("math_inline", "math_single"):
        return [("MATH", n.content)]
    if t in ("math_block", "math_inline_double"):
        return [("MATHBLOCK", n.content, None)]
    if t == "math_block_label":
        return [("MATHBLOCK", n.content, n.info)]
    if t == "amsmath":
        return [("MATHBLOCK", n.content, None)]
    if t == "hr":
        return [("HR",)]
    if t == "table":
        rows = []
        for sec in n.children:          # thead / tbody
            for tr in sec.children:
                cells = []
                for cell in tr.children:
                    style = str(cell.attrs.get("style", ""))
                    align = style.split(":")[1] if style.startswith("text-align:") else None
                    cells.append(("CELL", align, _tok_children(cell, md, env)))
                rows.append(("ROW", sec.type, cells))
        return [("TABLE", rows)]
    if t == "dl":
        return [("DL", _tok_children(n, md, env))]
    if t == "dt":
        return [("DT", _tok_children(n, md, env))]
    if t == "dd":
        return [("DD", _tok_children(n, md, env))]
    if t == "field_list":
        return [("FL", _tok_children(n, md, env))]
    if t == "fieldlist_name":
        return [("FNAME", _tok_children(n, md, env))]
    if t == "fieldlist_body":
        return [("FBODY", _tok_children(n, md, env))]
    if t == "span":
        return [("SPAN", _tok_children(n, md, env))]
    if t == "colon_fence":
        info = (n.info or "").strip()
        if info.startswith("{"):
            raise Unsupported("directive colon fence")
        from markdown_it.tree import SyntaxTreeNode

        inner = SyntaxTreeNode(md.parse(n.content + "\n", env))
        return [("DIV", _tok_children(inner, md, env))]
    raise Unsupported(t)


# --------------------------------------------------------------------------- doctree side


def doctree_to_skeleton(doc):
    return norm(_doc_children(doc))


def _doc_children(node):
    from docutils import nodes

    out = []
    kids = list(node.children)
    i = 0
    while i < len(kids):
        ch = kids[i]
        # hard break = raw html '<br />\n' immediately followed by raw latex
        if isinstance(ch, nodes.raw) and ch.get("format") == "html" and ch.astext() == "<br />\n" and i + 1 < len(kids) \
                and isinstance(kids[i + 1], nodes.raw) and kids[i + 1].get("format") == "latex":
            out.append(("BREAK",))
            i += 2
            continue
        out.extend(_doc(ch))
        i += 1
    return norm(out)


def _link_dest(n):
    for key in ("refuri", "refname", "reftarget"):
        if key in n:
            return n[key]
    if "refid" in n:
        return "#" + n["refid"]
    return None


def _doc(n):
    from docutils import nodes

    if isinstance(n, nodes.Text):
        return [("T", str(n))]
    tag = n.tagname
    if isinstance(n, (nodes.system_message, nodes.target, nodes.comment, nodes.substitution_definition, nodes.pending)):
        return []
    if tag in ("meta",):
        return []
    if isinstance(n, nodes.section):
        return _doc_children(n)
    if isinstance(n, (nodes.title, nodes.rubric)):
        return [("H", _doc_children(n))]
    if isinstance(n, nodes.paragraph):
        return [("P", _doc_children(n))]
    if isinstance(n, nodes.block_quote):
        return [("QUOTE", _doc_children(n))]
    if isinstance(n, nodes.bullet_list):
        return [("UL", _doc_children(n))]
    if isinstance(n, nodes.enumerated_list):
        return [("OL", str(n.get("start", 1)), n.get("suffix"), _doc_children(n))]
    if isinstance(n, nodes.list_item):
        return [("LI", _doc_children(n))]
    if isinstance(n, nodes.emphasis):
        return [("EM", _doc_children(n))]
    if isinstance(n, nodes.strong):
        return [("STRONG", _doc_children(n))]
    if isinstance(n, nodes.reference):
        return [("LINK", _link_dest(n), _doc_children(n))]
    if tag in ("pending_xref", "download_reference"):
        # Sphinx: the link text sits in one inner inline / literal node
        inner = n.children[0] if len(n.children) == 1 and isinstance(n.children[0], (nodes.inline, nodes.literal)) else n
        return [("LINK", _link_dest(n), _doc_children(inner))]
    if isinstance(n, nodes.image):
        return [("IMG", n.get("uri"), n.get("alt"), n.get("title"))]
    if isinstance(n, nodes.literal_block):
        classes = [c for c in n.get("classes", []) if c != "code"]
        lang = n.get("language")
        if lang is None:
            lang = classes[0] if classes else ""
        return [("CODEBLOCK", lang, _strip1(n.astext()))]
    if isinstance(n, nodes.literal):
        return [("CODE", n.astext())]
    if isinstance(n, nodes.raw):
        if n.get("format") == "html":
            return [("RAW", n.astext())]
        raise Unsupported("raw:" + str(n.get("format")))
    if isinstance(n, nodes.math):
        return [("MATH", n.astext())]
    if isinstance(n, nodes.math_block):
        label = n.get("label")
        if label is None and (n.get("names") or n.get("dupnames")):
            label = (n.get("names") or n.get("dupnames"))[0]
        if "amsmath" in n.get("classes", []):
            label = None  # (Sphinx gives numbered amsmath environments a generated label)
        return [("MATHBLOCK", n.astext(), label)]
    if isinstance(n, nodes.transition):
        return [("HR",)]
    if isinstance(n, nodes.table):
        rows = []
        for tg in n.children:
            if not isinstance(tg, nodes.tgroup):
                continue
            for sec in tg.children:
                if isinstance(sec, (nodes.thead, nodes.tbody)):
                    for row in sec.children:
                        cells = []
                        for e in row.children:
                            align = None
                            for c in e.get("classes", []):
                                if c.startswith("text-"):
                                    align = c[5:]
                            kids = e.children
                            if len(kids) == 1 and isinstance(kids[0], nodes.paragraph):
                                cells.append(("CELL", align, _doc_children(kids[0])))
                            else:
                                cells.append(("CELL", align, _doc_children(e)))
                        rows.append(("ROW", sec.tagname, cells))
        return [("TABLE", rows)]
    if isinstance(n, nodes.definition_list):
        out = []
        for item in n.children:
            out.extend(_doc_children(item) if isinstance(item, nodes.definition_list_item) else _doc(item))
        return [("DL", norm(out))]
    if isinstance(n, nodes.term):
        return [("DT", _doc_children(n))]
    if isinstance(n, nodes.definition):
        return [("DD", _doc_children(n))]
    if isinstance(n, nodes.field_list):
        out = []
        for f in n.children:
            out.extend(_doc_children(f) if isinstance(f, nodes.field) else _doc(f))
        return [("FL", norm(out))]
    if isinstance(n, nodes.field_name):
        return [("FNAME", _doc_children(n))]
    if isinstance(n, nodes.field_body):
        return [("FBODY", _doc_children(n))]
    if isinstance(n, nodes.container) and n.get("is_div"):
        return [("DIV", _doc_children(n))]
    if isinstance(n, nodes.inline):
        if "xref" in n.get("classes", []):
            return _doc_children(n)   # Sphinx wraps the text of a cross-reference in an inline carrier
        return [("SPAN", _doc_children(n))]
    raise Unsupported(tag)


# --------------------------------------------------------------------------- comparison helpers


def depth(sk) -> int:
    d = 0
    for it in sk:
        for part in it[1:]:
            if isinstance(part, list):
                d = max(d, 1 + depth(part))
    return d


def kinds(sk) -> set:
    out = set()
    for it in sk:
        out.add(it[0])
        for part in it[1:]:
            if isinstance(part, list):
                out |= kinds(part)
    return out


def first_diff(a, b, path=""):
    """Human-readable location of the first difference between two skeletons."""
    if len(a) != len(b):
        for i, (x, y) in enumerate(zip(a, b)):
            if x != y:
                return first_diff([x], [y], path + f"[{i}]") if x[0] == y[0] else f"{path}[{i}]: {x[0]} != {y[0]}"
        return f"{path}: {len(a)} items vs {len(b)} items ({[x[0] for x in a][:8]} / {[x[0] for x in b][:8]})"
    for i, (x, y) in enumerate(zip(a, b)):
        if x == y:
            continue
        if x[0] != y[0]:
            return f"{path}[{i}]: {x[0]} != {y[0]}"
        for k, (p, q) in enumerate(zip(x[1:], y[1:])):
            if p != q:
                if isinstance(p, list) and isinstance(q, list):
                    return first_diff(p, q, path + f"[{i}]{x[0]}")
                return f"{path}[{i}]{x[0]}.{k}: {p!r} != {q!r}"
    return None
