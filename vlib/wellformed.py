"""Doctree well-formedness predicate (C03).  Returns a list of (code, detail) problems; many trees are legal, so this
is a validity predicate over the output, not a comparison with an expected tree."""

from __future__ import annotations

import re


def problems(doc, *, transformed: bool, warnings_text: str = "", sphinx: bool = False,
             docinfo_removed: bool = False) -> list[tuple[str, str]]:
    from docutils import nodes
    from markdown_it.common.normalize_url import normalizeLink

    out: list[tuple[str, str]] = []
    seen: dict[int, nodes.Node] = {}

    # (i) parent pointers / single occurrence
    stack = [doc]
    while stack:
        n = stack.pop()
        if id(n) in seen:
            out.append(("node-occurs-twice", n.pformat()[:120] if isinstance(n, nodes.Element) else repr(n)[:80]))
            continue
        seen[id(n)] = n
        if isinstance(n, nodes.Element):
            for c in n.children:
                if c.parent is not n:
                    out.append(("wrong-parent-pointer",
                                f"{getattr(c, 'tagname', 'Text')} under {n.tagname}, parent says "
                                f"{getattr(c.parent, 'tagname', None)}"))
                stack.append(c)

    elements = [n for n in seen.values() if isinstance(n, nodes.Element)]
    # (ii) sections
    for n in elements:
        if isinstance(n, nodes.section):
            if not isinstance(n.parent, (nodes.document, nodes.section)):
                out.append(("section-inside-" + n.parent.tagname, n.astext()[:60]))
            if not (len(n) and isinstance(n[0], nodes.title)):
                out.append(("section-does-not-start-with-title", (n[0].tagname if len(n) else "empty") + ": " + n.astext()[:60]))
        # (iii) transitions
        if isinstance(n, nodes.transition) and not isinstance(n.parent, (nodes.document, nodes.section)):
            out.append(("transition-outside-section", "inside " + n.parent.tagname))
    # (iv) ids
    owner: dict[str, nodes.Element] = {}
    for n in elements:
        for i in n.get("ids", []):
            if i in owner and owner[i] is not n:
                out.append(("duplicate-id", f"{i!r} on {owner[i].tagname} and {n.tagname}"))
            owner[i] = n
    for i, n in owner.items():
        reg = doc.ids.get(i)
        if reg is not None and reg is not n and id(reg) in seen:
            out.append(("id-registry-points-elsewhere", f"{i!r}: registry {reg.tagname}, tree {n.tagname}"))
    # (v) internal links (after the transform pipeline only: before it references are still by name)
    if transformed:
        # docutils keeps the system messages raised by transforms in document.transform_messages (registered in
        # document.ids); a writer's Messages transform appends them to the tree, publish_doctree does not
        for pool in (getattr(doc, "transform_messages", []), getattr(doc, "parse_messages", [])):
            for msg in pool:
                for i in msg.get("ids", []):
                    owner.setdefault(i, msg)
        missing_targets = set()
        for m in re.finditer(r"target not found: '((?:[^'\\]|\\.)*)'", warnings_text):
            t = m.group(1)
            missing_targets.add(t)
            missing_targets.add(normalizeLink(t))
            try:
                missing_targets.add(normalizeLink(t.encode().decode("unicode_escape")))
            except Exception:  # noqa: BLE001
                pass
        for n in elements:
            if isinstance(n, (nodes.reference, nodes.footnote_reference, nodes.target, nodes.problematic)) and "refid" in n:
                rid = n["refid"]
                if sphinx and isinstance(n, nodes.problematic):
                    continue  # Sphinx removes system messages from the tree by design (they are logged instead)
                if rid not in owner and docinfo_removed and isinstance(n, (nodes.footnote_reference, nodes.reference)):
                    continue  # the definition / target was written inside the leading field list that Sphinx lifted out of the tree
                if rid not in owner:
                    has_msg = any("target not found" in s.astext() for s in n.findall(nodes.system_message))
                    if not (has_msg or rid in missing_targets):
                        out.append((f"dangling-refid:{n.tagname}", repr(rid)))
            if isinstance(n, (nodes.footnote, nodes.citation, nodes.system_message)):
                for b in n.get("backrefs", []):
                    if b not in owner and not docinfo_removed:
                        out.append((f"dangling-backref:{n.tagname}", repr(b)))
    # (vi) tables
    for n in elements:
        if isinstance(n, nodes.tgroup):
            cols = n.get("cols")
            if any(e.get("morerows") for e in n.findall(nodes.entry)):
                continue  # row spans (rST grid tables only): per-row widths are not comparable
            for row in n.findall(nodes.row):
                if row.parent.parent is not n:
                    continue
                width = sum(1 + int(e.get("morecols", 0)) for e in row.children if isinstance(e, nodes.entry))
                if width != cols:
                    out.append(("row-width-differs-from-cols", f"cols={cols} row={width}"))
            ncolspec = sum(1 for c in n.children if isinstance(c, nodes.colspec))
            if ncolspec != cols:
                out.append(("colspec-count-differs-from-cols", f"cols={cols} colspecs={ncolspec}"))
    # (vii) footnotes
    if transformed:
        for n in elements:
            if isinstance(n, nodes.footnote) and not (len(n) and isinstance(n[0], nodes.label)):
                out.append(("footnote-does-not-start-with-label", n.astext()[:60]))
    return out
