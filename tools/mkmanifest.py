#!/venv/bin/python
"""Regenerate MANIFEST.json from the table below (single source of truth)."""
import json
import os

HERE = os.path.dirname(os.path.dirname(os.path.abspath(__file__)))
props = [json.loads(l) for l in open(os.path.join(HERE, "properties.jsonl"))]

# id -> (level text, level note, technique)
CLAIMED = {
    "C01": (
        "Hypothesis search over grammar documents x valid configs, token soup, front-matter YAML vocabulary, hostile "
        "fragments for each documented error path and file-system faults on include / inventory paths, through both "
        "front ends (docutils publish_doctree; in-process Sphinx read_doc + post-transforms); oracle: no exception "
        "escapes, a document is returned, faults are reported; escaping exceptions bucketed by call site; bounded search."
        " Also exhaustive: 66 hostile destinations x 17 link / image / directive spellings and 24 front-matter values of every YAML type x 4 keys x title_to_header modes, in both front ends; a name-clash generator; thorough tier adds two atheris campaigns (raw text, Hypothesis-driven).",
        "halt_level=5; linkify/gfm_only configurations need linkify-it-py (not importable) and are not generated; "
        "termination is bounded by a watchdog (60 s, re-run at 600 s).",
        "Hypothesis grammar + soup + fault injection; crash/termination oracle with call-site bucketing",
    ),
    "C02": (
        "Hypothesis documents over the static CommonMark + GFM + MyST-extension syntax (recursive nesting of lists, quotes, "
        "emphasis, links, tables, definition / field lists, divs; Unicode and punctuation soup) in three parser modes, "
        "rendered by the docutils parser and the Sphinx parser; differential oracle against an independent reference: "
        "the markdown-it token tree of the same text is mapped to an abstract skeleton by ~150 lines of model code, the "
        "doctree by a generic walker, and the two (and the two front ends) must be equal - leaves once, in order, "
        "verbatim, same nesting, destinations / uri / alt / title / list start and delimiter / cell alignment / code "
        "language carried over; bounded search."
        " Also exhaustive: heading-level sequences, and 13 code languages x nesting x fence with highlighting on.",
        "Dynamic syntax (directive fences, roles, footnotes, inventory links) is excluded and counted; link destinations "
        "compared where unambiguous; highlighting off in docutils (pygments blank-line stripping is an open finding, as "
        "is the HTML-escaped refuri).",
        "Hypothesis grammar; differential oracle against an independent reference renderer (token tree -> skeleton)",
    ),
    "C03": (
        "Hypothesis documents from the full grammar x valid configurations, identifier-collision documents (names from a "
        "pool that includes look-alikes of docutils' automatic ids and case variants, used by headings, targets, attribute "
        "ids, footnotes, math labels and directive :name: options), ragged / nested GFM tables and list- / csv-table "
        "directives, and the cross-reference vocabulary of the totality check; each checked directly after parsing and "
        "after the transform pipeline (docutils) and after read + post-transforms (Sphinx); oracle: validity predicate "
        "over the tree (parent pointers, single occurrence, section / transition placement, id uniqueness and registry, "
        "refid / backref resolution, row widths, footnote labels); bounded search."
        " Also: ids on failing constructs, nested line blocks, named HTML elements, docutils security switches.",
        "Cases whose rendering raises belong to C01; suppress_warnings is stripped (C14); system messages held in "
        "document.transform_messages count as present; Sphinx removes system messages by design.",
        "Hypothesis grammar + collision generators; validity-predicate (invariant) oracle in three phases",
    ),
    "C04": (
        "Every wrapper shape (block quote, bullet / ordered list, div, and 72 directive layouts: 2 names x backtick / colon "
        "fence x 3 option styles x 0-2 blank lines before the body x 0-1 before the closing fence) to depth 2 (thorough: 3) "
        "around every marked leaf kind (exhaustive), Hypothesis trees to depth 5, and include of generated files (with "
        "start-line / start-after); ground truth by construction (the serializer records the first line of every "
        "construct); oracle on the pre-transform doctree: node.line of the marked node, the lines of its chain of "
        "container ancestors, the '<source>:<line>:' prefix and system_message line of every MyST warning, source path "
        "and file-relative lines inside includes; bounded search."
        " Also: warnings raised by transforms (unreferenced footnotes), fenced languages without a lexer (highlighting on), blank lines after a container's opening fence; the Sphinx entry point and 0-3 blank lines before the first block; a docutils directive that numbers its own node (parsed-literal).",
        "Warning-producing inline constructs sit in one-line paragraphs; docutils-made nodes and table rows / cells "
        "(untrue value pinned by the gettext fixtures) are outside the domain; the include +1 offset is an open finding.",
        "exhaustive wrapper-shape enumeration + Hypothesis trees; ground-truth-by-construction oracle",
    ),
    "C05": (
        "Every sequence of heading levels 1-6 up to length 5/6 (exhaustive) and Hypothesis sequences up to length 40 "
        "with filler blocks, nested headings in quotes / lists / admonitions and heading-offset includes, against a "
        "stack-machine reference model (parents, paragraph ownership, warning count and lines, rubric levels, "
        "structure invariance under deletion of nested headings); bounded search."
        " Also exhaustive: setext spellings, a front-matter title as first H1, nested includes.",
        "doctitle/sectsubtitle transforms off; match_titles=True directives (Sphinx 'only') not generated.",
        "exhaustive level sequences + Hypothesis; reference-model (stack machine) + metamorphic (delete nested headings) oracles",
    ),
    "C06": (
        "Hypothesis block sequences X from the document grammar (no headings / thematic breaks) wrapped in 1-4 nested "
        "admonition-type directives (10 names, backtick / colon fences, option block of either style or none, 0-2 blank "
        "lines), in an include of a generated file, or in a block substitution, each optionally inside further "
        "directives, with text after the wrapper that uses a footnote and a target defined inside X; metamorphic "
        "oracle: pre-transform children of the innermost wrapper == nodes of X in place, and the published tree with the "
        "wrappers spliced out == the published in-place tree (pformat, line / source masked); bounded search."
        " Also: the included file keeps its path across cases, is included twice, or is selected with start-after / end-before; eleven block kinds as first / last / only block of the inserted text through every way of nesting.",
        "Position-dependent directives are not generated inside X; substitution X avoids Jinja delimiters; outer use "
        "of a link reference definition made inside X is an open finding, replayed but not drawn.",
        "Hypothesis grammar; metamorphic oracle (wrapped vs in-place rendering, before and after transforms)",
    ),
    "C07": (
        "Exhaustive enumeration of all strings up to length 5 (quick) / 6 (thorough) over a 14-character "
        "YAML-significant alphabet, plus Hypothesis grammar-generated and mutated option blocks and (thorough) "
        "an atheris campaign, each compared with PyYAML's event stream; bounded search, not a proof."
        " Also: the documented line / column offsets must shift both error marks by exactly that amount; enumerations stop after three non-terminating inputs.",
        "Trusts PyYAML (ruamel.yaml as tie-breaker) as the conforming YAML loader; subset membership is decided "
        "from PyYAML's events; keys/mapping at column 0, no tab as separator.",
        "exhaustive small-string enumeration + Hypothesis grammar/mutation + atheris; differential oracle (PyYAML events)",
    ),
    "C17": (
        "Every HTML fragment of four classes (plain: all CommonMark HTML-block start conditions; img-only; admonition div; "
        "mixed) x the four html_image / html_admonition combinations (exhaustive) and Hypothesis documents of such "
        "fragments with inline HTML in quotes / lists: raw nodes == html token contents of an independent RendererHTML "
        "parse; every whitelisted <img> attribute x 41 option-syntax-hostile values (exhaustive) and Hypothesis attribute "
        "sets, block and inline: image nodes and warnings == those of the image directive with double-quoted options; "
        "Hypothesis <div class=admonition> structures == the admonition directive; every disallowed tag x open / close x "
        "13 following characters x 3 letter cases (exhaustive) and Hypothesis tag soup in GFM mode: raw text == scanner "
        "model of the tag filter and html.parser sees none of the nine tags; bounded search."
        " Also: an unterminated earlier document, the GFM filter next to each HTML extension, several admonitions in one block.",
        "GFM mode through create_md_parser(gfm config) with linkify disabled; the equivalent directive uses "
        "double-quoted option values (C07-verified form).",
        "exhaustive fragment / attribute-value / tag-spelling enumeration + Hypothesis; differential (token contents, directive spelling) + reference-model (tag-filter scanner) oracles",
    ),
    "C18": (
        "Hypothesis-generated object tables serialised as v1/v2 inventories (plus line-level mutations), loaded "
        "through every 1- and 2-split chunking of small files and random chunk-size sequences of larger ones; "
        "differential against Sphinx's own loader, chunking metamorphic relation, Sphinx-format round trip; bounded search."
        " Also: inventories of 400-6000 entries (several read buffers) under large / ragged reads; consecutive malformed lines.",
        "Trusts sphinx.util.inventory.InventoryFile.loads (8.2.3) as reference; names avoid the exotic line separators "
        "on which str.splitlines and a '\\n' split legitimately differ.",
        "Hypothesis table generator + exhaustive small-file chunk partitions; differential (Sphinx loader) + metamorphic (chunking) + round-trip oracles",
    ),
    "C19": (
        "Exhaustive (pattern, name) pairs up to 4x4 / 5x5 over a 6-character alphabet incl. '*', '\\' and regex "
        "metacharacters against a reference matcher written from the statement (dynamic programming, no re), random "
        "longer pairs, generated inventories x filter quadruples against a brute-force filter (native and Sphinx "
        "representation), and inv: links in every spelling through the docutils front end; bounded search."
        " Also: the empty pattern, patterns reaching across the domain / type boundary, inventory files that keep their path across cases, one file under two keys, repeated destinations.",
        "Reference matcher is hand-written from the statement; link targets restricted to URL-safe characters so "
        "markdown-it link normalisation is the identity.",
        "exhaustive small-pair enumeration + Hypothesis; reference-model oracle (DP matcher, brute-force filter)",
    ),
    "C08": (
        "Exhaustive contents (<=4/5 lines over a 12-line vocabulary, with and without final newline) x 36 synthetic "
        "directive shapes x first lines, plus Hypothesis-generated option blocks for every directive class in the "
        "docutils/Sphinx/domain registries (~150 'programs'); reference model of the documented split, the class's own "
        "converters as value oracle; bounded search."
        " Also: option names differing only in letter case from a declared one.",
        "Tokenization of simple 'key: value' option lines is taken from the tokenizer verified by C07; trailing blank "
        "body lines are don't-care.",
        "exhaustive vocabulary enumeration over class shapes + Hypothesis over registry classes; reference-model oracle",
    ),
    "C10": (
        "All 9330 sequences of <=5 headings over six colliding titles (exhaustive in thorough, all <=4 plus a quarter "
        "of length 5 in quick) and Hypothesis title sequences over Unicode / punctuation / inline markup, anchor depth "
        "0-7, default / dotted-path / raising slug functions; three-way oracle: reference model of the documented GitHub "
        "rule, myst-anchors output for the same text, self-resolution of '[](#slug)'; bounded search."
        " Also exhaustive: documents rendered by one reused parser object; the same headings through an include with a heading offset.",
        "Model asserted only for titles without outer white space (documentation silent); headings inside directive "
        "bodies excluded (CLI cannot see them).",
        "exhaustive small-alphabet sequences + Hypothesis; reference-model + differential (myst-anchors CLI) + round-trip (link resolution) oracles",
    ),
    "C12": (
        "A fixed 5-document tree in 4 directories: every link kind (11) x path style (relative, './', leading '/') x text "
        "form (plain, strong, emphasis, code, mixed, empty) from every source document (exhaustive over the spelling "
        "table), and Hypothesis-generated projects (3-8 documents in random directories, duplicate headings, labels, "
        "non-document files, 4-14 links); output-based oracle on a full html build per project: each link's <a> is found "
        "by its marker in the written page; href joined to the page path must be the target's page / an id on the "
        "element holding the expected (k-th) heading / a byte-identical copy of the file; link text = explicit text with "
        "nested tags or the target's title; missing targets: exactly one xref_missing warning at the link's line, text "
        "kept; no warning for resolvable links; bounded search."
        " Also: documents named like a directory, labels with capitals, non-ASCII headings, the same relative destination written by pages of different directories in one project.",
        "Names unique by construction (no xref_ambiguous); text of empty links to missing targets unconstrained; expected "
        "fragments are validated against the written page, not predicted.",
        "exhaustive spelling-table enumeration + Hypothesis projects; output-based validity oracle independent of the resolver (BeautifulSoup over the built site)",
    ),
    "C13": (
        "Every config field x a type table of values written from the documented types (385 rows: valid spellings, wrong "
        "scalar / container / nested types; VALID / INVALID / UNSPECIFIED), Hypothesis-composed nested values for the "
        "structured fields, through constructor, copy(), merge_file_level, front matter of a real parse, docutils "
        "settings of a real parse, docutils option strings through docutils' OptionParser, and conf.py values of real "
        "Sphinx applications; oracles: accepted <=> VALID and all entry points agree; all spellings of a value give one "
        "canonically typed configuration; front-matter setting == global setting for every local field (fixed "
        "feature-rich document x value table x 3 global configurations, and Hypothesis documents), with dict merge; "
        "invalid front-matter value => exactly one topmatter warning and unchanged rendering; global configuration "
        "object unchanged by parses in a live Sphinx app and by merge_file_level; bounded search."
        " Also: importable non-callables, front matter closed with '...', figure-md with html_image enabled globally.",
        "Type table written from the documentation, silent cases UNSPECIFIED; commonmark_only in front matter is an "
        "open finding; gfm_only / linkify effects need linkify-it-py.",
        "exhaustive type-table enumeration + Hypothesis; reference-model (type table) + differential (entry points / spellings) + metamorphic (front matter vs global) oracles",
    ),
    "C14": (
        "Every trigger fragment (20 catalogue entries incl. ref.footnote) x container x suppress list {its tag, bare type, "
        "type.*, another tag, unrelated, none} (exhaustive), Hypothesis combinations of triggers, fillers and random "
        "suppress lists through docutils and the in-process Sphinx reader, and a static enumeration of every "
        "warning-emitting call site in the package (47 sites); oracles: every emitted myst tag is in the MystWarnings "
        "catalogue and every trigger emits its documented tag in both front ends; suppressed run == unsuppressed run "
        "minus exactly the matched log lines and system_message nodes (order and remaining pformat identical); call "
        "sites pass a catalogue member / literal or an explicit non-myst type; bounded search."
        " Also: the suppress list as docutils' option string; Sphinx with keep_warnings; unreadable inventory files; a third-party Sphinx domain (myst.domains).",
        "'Every catalogue warning is emitted' is read as 'whenever emitted, tagged'; render / html / xref_ambiguous / "
        "domains are covered statically only; Sphinx removes system_message nodes by design.",
        "exhaustive trigger x suppress-list enumeration + Hypothesis; metamorphic (suppression) + catalogue-membership oracles; exhaustive AST call-site enumeration",
    ),
    "C15": (
        "Hypothesis rule-based state machines: per run a pool of 3-8 generated (document, configuration) pairs - state-"
        "touching writers (include with MyST options, figure-md, substitutions, eval-rst roles / default-role, role "
        "directive, html_meta, footnotes, duplicate ids and titles, amsmath, front-matter overrides, inventory links), "
        "observer documents that would render differently if state leaked, and grammar documents - sharing 1-3 "
        "configurations; rules parse(i) via the docutils publisher, via the renderer with one shared MdParserConfig "
        "object, or in one long-lived Sphinx application; every step's doctree + warnings must equal the reference "
        "computed in a pristine process (fresh fork of a server that imported but never parsed; fresh Sphinx app). Plus "
        "generated 8-12 document Sphinx projects built with 1 vs 2-4 read workers: html files byte-identical, sorted "
        "warnings equal; bounded search."
        " Also: a reused docutils settings object; one inventory file under several base URLs; sectioned projects and one dense project per shard in the parallel sub-check.",
        "Parallel schedules are sampled through worker counts only; docutils' own process-wide role / directive "
        "registries are reset between examples and not charged to MyST; a live Sphinx app and standalone docutils "
        "parses are not mixed in one process.",
        "Hypothesis stateful (rule-based machine) with a pristine-process reference model; differential serial-vs-parallel builds",
    ),
    "C16": (
        "Hypothesis markup soup (totality, termination, tree consistency), grammar-generated well-formed HTML and "
        "exhaustive forests of <=4/5 nodes (exact round trip, copy/strip isolation, find = brute-force filter), "
        "atheris campaign in the thorough tier; bounded search."
        " Also: history (an unterminated string parsed first), copies edited before the original is compared, nesting depths to 3000 (thorough 20000), two root names.",
        "Well-formed = the forms the statement lists, in the parser's canonical spelling; stdlib html.parser is part "
        "of the code under test.",
        "Hypothesis soup + grammar round-trip + exhaustive small forests + atheris; round-trip / invariant / brute-force reference oracles",
    ),
    "C09": (
        "Every explicit-target kind (9) x target container x link spelling (4) x link container (5) x order (exhaustive), "
        "and Hypothesis documents with drawn sets of explicit targets, headings with duplicate / suffix-colliding titles "
        "under anchor depth 0-4 and '#' links to existing, slug, clashing, too-deep, missing, duplicate and case-variant "
        "names, through docutils and the in-process Sphinx reader; the generator knows the node each link must hit "
        "(marker words, heading index, independent slug model); oracle: refid in that node's ids, explicit beats slug, "
        "empty text = target title or '#name', one xref_missing warning per missing link at its line, link count "
        "preserved; bounded search."
        " Also: bare targets, names needing percent-encoding, names whose identifier differs from the name.",
        "Links sit in one-line paragraphs; empty-text links to missing targets (pinned by a fixture), case-variant and "
        "duplicate names get weak checks; Sphinx math labels are outside the statement's target kinds.",
        "exhaustive kind x placement enumeration + Hypothesis; reference-model oracle with ground truth by construction",
    ),
    "C11": (
        "Every arrangement of <=2/3 footnote definitions over 4 labels x every sequence of <=3 references (exhaustive), "
        "Hypothesis documents (11 labels incl. numeric, upper-case and superscript-digit ones, undefined labels, "
        "duplicates, unreferenced, references inside definitions, definitions in quotes / list items / admonitions) "
        "under footnote_sort x footnote_transition, through docutils and the in-process Sphinx reader; reference model "
        "of numbering, per-reference target / displayed number / backrefs, placement and order of collected footnotes, "
        "transition, exact [ref.footnote] warning multiset with lines, no text lost; bounded search."
        " Also: names shared with headings / targets; the two options selected in the front matter over an opposite global value.",
        "Numbering order asserted only with sorting enabled (statement ambiguous otherwise); undefined-label references "
        "and dropped duplicates' text are don't-care.",
        "exhaustive small arrangements + Hypothesis; reference-model oracle (numbering, placement, warning multiset)",
    ),
    "C20": (
        "Hypothesis documents in which every raw-capable construct (HTML block / inline in several contexts, raw "
        "directive, raw-derived roles from MyST and from eval-rst, hard break, strikethrough, HTML substitution, "
        "html_admonition) carries a sentinel tag and every file-reading construct (include plain/literal/code/with "
        "raw HTML inside, raw :file:/:url:, csv-table :file:/:url:, the rST spellings inside eval-rst) names a "
        "sentinel file, nested 0-3 deep in 8 container kinds, each published under the 4 combinations of raw_enabled "
        "x file_insertion_enabled; every construct x wrapper exhaustively; oracle: no raw node / no sentinel in tree "
        "or html5 output, no open() of a sentinel file (audit hook), a warning per refusal, markers intact and "
        "identically placed in all 4 runs, positive control with both on; bounded search."
        " Also: absolute / '<...>' / missing file names, suppressed MyST warnings next to the switches, the switches given as 0 / 1.",
        "docutils front end; file reads observed via the CPython 'open' audit event; image :scale: needs PIL (absent).",
        "Hypothesis + exhaustive construct x wrapper enumeration; invariant oracle over 4 settings runs with audit-hook fault observation and positive control",
    ),
}

checks = []
for pid, (text, note, tech) in sorted(CLAIMED.items()):
    checks.append({
        "property_id": pid,
        "quick_cmd": f"./run.py {pid} --tier quick",
        "thorough_cmd": f"./run.py {pid} --tier thorough",
        "evidence_file": f"evidence/{pid}.json",
        "replay_cmd_template": f"./run.py {pid} --replay {{path}}",
        "engine": "verif-pbt",
        "level_claimed": {"category": "exploration", "text": text, "design_ref": f"DESIGN.md section 5, {pid}"},
        "level_note": note,
        "technique": tech,
    })
m = {
    "version": 1,
    "setup_cmd": "./setup.sh",
    "hooks": {
        "guard": "MYST_PARSER_VERIF",
        "enable": "no hooks are needed: every observation point is public API; each check imports /repo's working "
                  "tree (editable install) in a fresh interpreter, so it always rebuilds from the current sources",
        "baseline_off_cmd": "/verif/tools/baseline.py",
        "source_commits": [],
        "add_only": True,
    },
    "engines": [{
        "name": "verif-pbt", "path": "run.py", "serves_properties": sorted(CLAIMED),
        "kind_free_text": "Hypothesis strategies / rule-based state machines, exhaustive small-domain enumeration and "
                          "atheris (libFuzzer) campaigns against explicit oracles, sharded over 16 processes; "
                          "deterministic in VERIF_SEED",
    }],
    "checks": checks,
    "notes": "See DESIGN.md. known_findings.json lists open and fixed findings; seeded/ holds confirmed breaking changes.",
    "not_applicable": [
        {"property_id": p["id"], "reason": "check still under construction in this session; not claimed yet"}
        for p in props if p["id"] not in CLAIMED
    ],
}
json.dump(m, open(os.path.join(HERE, "MANIFEST.json"), "w"), indent=1)
print("claimed:", sorted(CLAIMED))
