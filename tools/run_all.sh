#!/bin/sh
# usage: tools/run_all.sh quick|thorough [ids...]   - runs every registered check of a tier, prints one line per check
TIER=${1:-quick}; shift
cd "$(dirname "$0")/.."
./setup.sh >/dev/null 2>&1
IDS=${*:-"C01 C02 C03 C04 C05 C06 C07 C08 C09 C10 C11 C12 C13 C14 C15 C16 C17 C18 C19 C20"}
for id in $IDS; do
  start=$(date +%s)
  out=$(./run.py $id --tier $TIER 2>&1); rc=$?
  echo "$id rc=$rc $(( $(date +%s) - start ))s $(echo "$out" | grep ' tier=' | tail -1)"
  echo "$out" | grep -E "^VIOLATION|HARNESS-ERROR|signature=" | head -8
done
