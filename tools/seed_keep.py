#!/venv/bin/python
"""Keep a confirmed seeded change under /verif/seeded/<property>-<k>/ (patch.diff, demo.py, notes.md, meta.json).

usage: tools/seed_keep.py <result.json from seed_eval.py> [--history "text about earlier misses"]
"""
import json, os, shutil, sys
res = json.load(open(sys.argv[1]))
hist = sys.argv[3] if len(sys.argv) > 3 and sys.argv[2] == "--history" else ""
src = res["dir"]
pid = res["id"]
k = os.path.basename(src)
dst = os.path.join("/verif/seeded", f"{pid}-{k}")
assert res["demo_clean_rc"] == 0 and res["demo_patched_rc"] != 0, "demo not confirmed"
assert res.get("suite_ok", False), "suite not confirmed"
os.makedirs(dst, exist_ok=True)
for f in ("patch.diff", "demo.py", "notes.md"):
    if os.path.exists(os.path.join(src, f)):
        shutil.copy(os.path.join(src, f), os.path.join(dst, f))
notes = open(os.path.join(src, "notes.md")).read() if os.path.exists(os.path.join(src, "notes.md")) else ""
meta = {
    "property": pid,
    "breaks": "see notes.md (written by the independent sub-agent that produced the change)",
    "needs_to_manifest": notes[:1500],
    "confirmed": {
        "demo_on_clean_tree_rc": res["demo_clean_rc"],
        "demo_with_patch_rc": res["demo_patched_rc"],
        "demo_with_patch_last_line": res.get("demo_patched_tail", ""),
        "pinned_suite_with_patch": "all 1076 stable_pass tests pass (pytest -n 6, missing ones re-run serially)",
        "how": "tools/seed_eval.py: scratch worktree of /repo under /tmp, demo before/after git apply, pinned suite, then "
               "./run.py <ID> with VERIF_REPO=<worktree> VERIF_OUT=<scratch>",
    },
    "checks": res.get("checks", {}),
    "history": hist,
}
json.dump(meta, open(os.path.join(dst, "meta.json"), "w"), indent=1)
print("kept", dst)
