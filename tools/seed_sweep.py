#!/venv/bin/python
"""Re-evaluate every kept seeded change against the *current* checks and the *current* /repo HEAD.

usage: tools/seed_sweep.py [--jobs N] [--only C06,C09] [--suite]

For each /verif/seeded/<ID>-mK: tools/seed_eval.py <ID> <dir> --skip-suite (demo clean / demo patched / quick check with
VERIF_REPO=<scratch worktree>).  Writes /verif/seeded/SWEEP.json: per change whether the patch still applies, the demo
still discriminates and the quick tier still reports a violation (and with which signatures).  Exit 1 if any change
is no longer caught (sensitivity regression), 0 otherwise.  Never touches /repo's working tree.
"""
import argparse
import json
import os
import subprocess
import sys
from concurrent.futures import ThreadPoolExecutor

ap = argparse.ArgumentParser()
ap.add_argument("--jobs", type=int, default=4)
ap.add_argument("--only", default="")
ap.add_argument("--suite", action="store_true")
a = ap.parse_args()

root = "/verif/seeded"
dirs = sorted(d for d in os.listdir(root) if os.path.isdir(os.path.join(root, d)))
if a.only:
    want = set(a.only.split(","))
    dirs = [d for d in dirs if d.split("-")[0] in want or d in want]


def one(d):
    pid = d.split("-")[0]
    cmd = ["/verif/tools/seed_eval.py", pid, os.path.join(root, d)] + ([] if a.suite else ["--skip-suite"])
    try:
        also = json.load(open(os.path.join(root, d, "meta.json"))).get("also_checked_with") or []
    except Exception:  # noqa: BLE001
        also = []
    if also:
        cmd += ["--also", ",".join(also)]      # a change whose clause a neighbouring property's check owns
    p = subprocess.run(cmd, capture_output=True, text=True, errors="replace")
    line = next((ln for ln in reversed(p.stdout.splitlines()) if ln.startswith("{")), None)
    if line is None:
        return d, {"error": (p.stderr or p.stdout)[-400:]}
    r = json.loads(line)
    chk = r["checks"].get(pid, {})
    if chk.get("rc") != 1:
        chk = next((v for k, v in r["checks"].items() if v.get("rc") == 1), chk)
    return d, {"demo_clean_rc": r.get("demo_clean_rc"), "demo_patched_rc": r.get("demo_patched_rc"),
               "suite_ok": r.get("suite_ok"), "check_rc": chk.get("rc"), "signatures": chk.get("signatures", []),
               "harness": chk.get("harness", [])[:2]}


res = {}
with ThreadPoolExecutor(a.jobs) as ex:
    for d, r in ex.map(one, dirs):
        res[d] = r
        ok = r.get("check_rc") == 1 and r.get("demo_clean_rc") == 0 and r.get("demo_patched_rc") not in (0, None)
        print(("caught " if ok else "NOT-OK ") + d, json.dumps(r)[:260], flush=True)

head = subprocess.run(["git", "-C", "/repo", "log", "--format=%h", "-1"], capture_output=True, text=True).stdout.strip()
bad = [d for d, r in res.items() if not (r.get("check_rc") == 1 and r.get("demo_clean_rc") == 0
                                          and r.get("demo_patched_rc") not in (0, None))]
if not a.only:
    json.dump({"repo_head": head, "tier": "quick", "seed": 1, "changes": res, "not_caught": bad},
              open(os.path.join(root, "SWEEP.json"), "w"), indent=1, sort_keys=True)
print(f"{len(res) - len(bad)}/{len(res)} caught; not ok: {bad}")
sys.exit(1 if bad else 0)
