#!/bin/sh
# usage: tools/try_mutant.sh <ID> <file-relative-to-repo> <python-expr-old> <python-expr-new>
# Applies a textual mutation to /repo, runs the quick check, restores /repo. For sensitivity testing only.
ID=$1; F=$2; OLD=$3; NEW=$4
cd /repo || exit 2
git diff --quiet || { echo "repo dirty"; exit 2; }
/venv/bin/python - "$F" "$OLD" "$NEW" <<'PY'
import sys
f, old, new = sys.argv[1:4]
s = open(f).read()
assert s.count(old) >= 1, "pattern not found"
open(f, "w").write(s.replace(old, new, 1))
PY
[ $? -eq 0 ] || { git checkout -- .; exit 2; }
cd /verif && ./run.py "$ID" 2>&1 | grep -E "VIOLATION|tier=|HARNESS|signature" | cut -c1-300
git -C /repo checkout -- .
