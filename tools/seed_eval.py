#!/venv/bin/python
"""Confirm a seeded change and run the property's check against it.

usage: tools/seed_eval.py <ID> <dir with patch.diff, demo.py> [--tier quick|thorough] [--skip-suite] [--also ID2,ID3]

Everything happens in a scratch worktree of /repo under /tmp (never in /repo itself):
 1. demo on the clean worktree must exit 0
 2. patch applied: demo must exit non-zero
 3. patch applied: the pinned test suite must still pass every stable_pass test
 4. patch applied: ./run.py <ID> is run with VERIF_REPO=<worktree> and VERIF_OUT=<scratch>, so neither /repo nor
    /verif/evidence is touched
Prints one JSON line with the outcome.  The worktree is removed afterwards.
"""
import argparse
import json
import os
import shutil
import subprocess
import sys
import tempfile
import xml.etree.ElementTree as ET

ap = argparse.ArgumentParser()
ap.add_argument("id")
ap.add_argument("dir")
ap.add_argument("--tier", default="quick")
ap.add_argument("--skip-suite", action="store_true")
ap.add_argument("--also", default="")
ap.add_argument("--seed", default="1")
a = ap.parse_args()

d = os.path.abspath(a.dir)
patch = os.path.join(d, "patch.diff")
demo = os.path.join(d, "demo.py")
wt = tempfile.mkdtemp(prefix=f"wt-eval-{a.id}-", dir="/tmp")
os.rmdir(wt)
out = {"id": a.id, "dir": d}


def sh(cmd, cwd=None, env=None, timeout=3600):
    p = subprocess.run(cmd, cwd=cwd, env=env, capture_output=True, text=True, errors="replace", timeout=timeout)
    return p.returncode, p.stdout + p.stderr


try:
    rc, o = sh(["git", "-C", "/repo", "worktree", "add", "-q", "--detach", wt, "HEAD"])
    assert rc == 0, o
    env = dict(os.environ)
    env["PYTHONDONTWRITEBYTECODE"] = "1"
    env["PYTHONPATH"] = wt
    rc, o = sh(["/venv/bin/python", demo], cwd=wt, env=env, timeout=900)
    out["demo_clean_rc"] = rc
    rc, o = sh(["git", "-C", wt, "apply", patch])
    assert rc == 0, "patch does not apply: " + o
    rc, o = sh(["/venv/bin/python", demo], cwd=wt, env=env, timeout=900)
    out["demo_patched_rc"] = rc
    out["demo_patched_tail"] = o.strip().splitlines()[-1][:300] if o.strip() else ""
    if not a.skip_suite:
        xml = os.path.join(wt, "junit-verif.xml")
        sh(["/venv/bin/python", "-m", "pytest", "-q", "-p", "no:cacheprovider", "--timeout=900", "-n", "6",
            "--continue-on-collection-errors", f"--junitxml={xml}"], cwd=wt, env=env, timeout=3000)
        passed = set()
        for tc in ET.parse(xml).getroot().iter("testcase"):
            if not any(ch.tag in ("failure", "error", "skipped") for ch in tc):
                passed.add(f"{tc.get('classname')}::{tc.get('name')}")
        want = set(json.load(open("/root/.vp/BASELINE.json"))["stable_pass"])
        missing = sorted(want - passed)
        out["suite_missing_parallel_run"] = missing[:10]
        if missing and len(missing) <= 40:
            # the sphinx build tests are flaky under xdist load: re-run what is missing serially
            ids = []
            for m in missing:
                cls, name = m.split("::", 1)
                ids.append(cls.replace(".", "/") + ".py::" + name)
            sh(["/venv/bin/python", "-m", "pytest", "-q", "-p", "no:cacheprovider", "--timeout=900",
                f"--junitxml={xml}"] + ids, cwd=wt, env=env, timeout=3000)
            for tc in ET.parse(xml).getroot().iter("testcase"):
                if not any(ch.tag in ("failure", "error", "skipped") for ch in tc):
                    passed.add(f"{tc.get('classname')}::{tc.get('name')}")
        out["suite_missing"] = sorted(want - passed)[:10]
        out["suite_ok"] = not (want - passed)
        os.unlink(xml)
    for pid in [a.id] + [x for x in a.also.split(",") if x]:
        scratch = tempfile.mkdtemp(prefix="verif-out-")
        env2 = dict(os.environ)
        env2.update({"VERIF_REPO": wt, "VERIF_OUT": scratch, "VERIF_SEED": a.seed})
        rc, o = sh(["/verif/run.py", pid, "--tier", a.tier], cwd="/verif", env=env2, timeout=7200)
        sigs = sorted({ln.split("signature=")[1].strip() for ln in o.splitlines() if "signature=" in ln and ln.startswith("---")})
        out.setdefault("checks", {})[pid] = {"rc": rc, "tier": a.tier, "signatures": sigs[:8],
                                               "summary": [ln for ln in o.splitlines() if " tier=" in ln][-1:],
                                               "harness": [ln[:300] for ln in o.splitlines() if "HARNESS-ERROR" in ln][:2]}
        shutil.rmtree(scratch, ignore_errors=True)
finally:
    subprocess.run(["git", "-C", "/repo", "worktree", "remove", "--force", wt], capture_output=True)
    shutil.rmtree(wt, ignore_errors=True)
print(json.dumps(out))
