#!/venv/bin/python
"""Regenerate the generated tables of DESIGN.md (findings, seeded changes, measured cost) between their markers."""
import glob
import json
import os
import re

HERE = os.path.dirname(os.path.dirname(os.path.abspath(__file__)))
s = open(os.path.join(HERE, "DESIGN.md")).read()


def put(name, text):
    global s
    a, b = f"<!-- BEGIN:{name} -->", f"<!-- END:{name} -->"
    i, j = s.index(a) + len(a), s.index(b)
    s = s[:i] + "\n" + text.rstrip("\n") + "\n" + s[j:]


def esc(t):
    return t.replace("|", "\\|").replace("\n", " ")


kf = json.load(open(os.path.join(HERE, "known_findings.json")))["findings"]
rows = ["| property | status | commit / signature | what failed |", "|---|---|---|---|"]
for f in kf:
    if f["status"] == "fixed":
        what = f["entry"].split(" ", 4)[-1] if f["entry"].count(" ") >= 4 else f["entry"]
        rows.append(f"| {f['property']} | fixed | `{f['commit']}` | {esc(what)[:700]} |")
for f in kf:
    if f["status"] == "open":
        rows.append(f"| {f['property']} | **open** | `{f['signature']}` (reproducer `{f['reproducer']}`) | {esc(f['what'])[:900]} |")
n_fixed = sum(1 for f in kf if f["status"] == "fixed")
n_open = sum(1 for f in kf if f["status"] == "open")
put("findings", f"{n_fixed} defects repaired by `fix:` commits in /repo, {n_open} recorded as open findings.\n\n" + "\n".join(rows))

rows = ["| seeded change | site | needs, to manifest | caught by (signature) | history |", "|---|---|---|---|---|"]
for d in sorted(x for x in glob.glob(os.path.join(HERE, "seeded", "*")) if os.path.isdir(x)):
    m = json.load(open(os.path.join(d, "meta.json")))
    patch = open(os.path.join(d, "patch.diff")).read()
    files = sorted(set(re.findall(r"^\+\+\+ b/(\S+)", patch, re.M)))
    funcs = sorted(set(re.findall(r"^@@.*@@ (?:def|class) (\w+)", patch, re.M)))
    notes = m.get("needs_to_manifest", "")
    mm = re.search(r"(?is)(needs?[^\n]*\n?.{0,260})", notes)
    need = esc(mm.group(1))[:260] if mm else esc(notes[:200])
    sigs = []
    for k, v in m.get("checks", {}).items():
        if v.get("rc") == 1:
            sigs.append(k.split("_")[0] + ": " + ", ".join(x.split(":", 1)[-1] for x in v.get("signatures", [])[:2]))
    rows.append(f"| `{os.path.basename(d)}` | {', '.join(files)} {('(' + ', '.join(funcs[:2]) + ')') if funcs else ''} | {need} | {esc('; '.join(sigs))[:300]} | {esc(m.get('history', ''))[:420]} |")
put("seeded", f"{len(rows) - 2} confirmed seeded changes under `/verif/seeded/` (patch.diff, demo.py, notes.md, meta.json each).\n\n" + "\n".join(rows))

rows = ["| property | evaluations | distinct non-trivial | wall (s) | known-finding hits in search |", "|---|---|---|---|---|"]
for p in sorted(glob.glob(os.path.join(HERE, "evidence", "C*.json"))):
    e = json.load(open(p))
    c = e["coverage"]
    rows.append(f"| {e['property_id']} | {c['evaluations']} | {c['distinct_nontrivial']} | {e['wall_s']} | {sum(c.get('known_finding_hits_in_search', {}).values())} |")
put("cost", "Measured by the last quick-tier run that wrote the committed evidence files (16 cores, seed 1):\n\n" + "\n".join(rows))
open(os.path.join(HERE, "DESIGN.md"), "w").write(s)
print("DESIGN.md tables regenerated")
