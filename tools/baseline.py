#!/venv/bin/python
"""Run the repository's pinned suite (guard off) and compare with BASELINE.json.

exit 0 iff every test in stable_pass passes.
"""
import json
import os
import subprocess
import sys
import tempfile
import xml.etree.ElementTree as ET

base = json.load(open("/root/.vp/BASELINE.json")) if os.path.exists("/root/.vp/BASELINE.json") else None
with tempfile.TemporaryDirectory() as td:
    xml = os.path.join(td, "junit.xml")
    env = {k: v for k, v in os.environ.items() if k != "MYST_PARSER_VERIF"}
    subprocess.run(
        ["/venv/bin/python", "-m", "pytest", "-ra", "-q", "-p", "no:cacheprovider", "--timeout=900",
         "--continue-on-collection-errors", f"--junitxml={xml}"],
        cwd="/repo", env=env, stdout=subprocess.DEVNULL, stderr=subprocess.DEVNULL,
    )
    passed = set()
    for tc in ET.parse(xml).getroot().iter("testcase"):
        if not any(ch.tag in ("failure", "error", "skipped") for ch in tc):
            passed.add(f"{tc.get('classname')}::{tc.get('name')}")
if base is None:
    print(f"passed={len(passed)} (no BASELINE.json to compare with)")
    sys.exit(0 if len(passed) >= 1076 else 1)
want = set(base["stable_pass"])
missing = sorted(want - passed)
print(f"passed={len(passed)} stable_pass={len(want)} missing={len(missing)}")
for m in missing[:20]:
    print("  MISSING", m)
sys.exit(1 if missing else 0)
