#!/opt/veriftools/pyvenv/bin/python
"""Validate MANIFEST.json and every evidence file against the schemas."""
import glob, json, sys
import jsonschema
ok = True
m = json.load(open('/verif/MANIFEST.json'))
try:
    jsonschema.validate(m, json.load(open('/root/.vp/MANIFEST.schema.json')))
except Exception as e:
    ok = False; print("MANIFEST invalid:", e)
props = [json.loads(l)["id"] for l in open('/verif/properties.jsonl')]
claimed = [c["property_id"] for c in m["checks"]]
na = [c["property_id"] for c in m.get("not_applicable", [])]
for p in props:
    if (p in claimed) == (p in na):
        ok = False; print("property", p, "must be in exactly one of checks / not_applicable")
es = json.load(open('/root/.vp/EVIDENCE.schema.json'))
for c in m["checks"]:
    try:
        jsonschema.validate(json.load(open('/verif/' + c["evidence_file"])), es)
    except Exception as e:
        ok = False; print("evidence invalid:", c["evidence_file"], str(e)[:300])
print("valid" if ok else "INVALID")
sys.exit(0 if ok else 1)
