#!/venv/bin/python
"""Entry point:  run.py <ID> [--tier quick|thorough] [--replay PATH] [--workers N]

exit 0  property held on everything explored (KNOWN-FINDING lines may be printed)
exit 1  violation not listed in known_findings.json (VIOLATION line on stdout)
exit 2  harness error (never disguised as 0 or 1)
"""

from __future__ import annotations

import argparse
import os
import sys

HERE = os.path.dirname(os.path.abspath(__file__))
PY = "/venv/bin/python"

CHECKS = {
    "C01": "checks.c01_total",
    "C02": "checks.c02_faithful",
    "C03": "checks.c03_wellformed",
    "C04": "checks.c04_lines",
    "C05": "checks.c05_sections",
    "C06": "checks.c06_nested",
    "C07": "checks.c07_options",
    "C08": "checks.c08_directive_text",
    "C09": "checks.c09_local_links",
    "C10": "checks.c10_anchors",
    "C11": "checks.c11_footnotes",
    "C12": "checks.c12_sphinx_links",
    "C13": "checks.c13_config",
    "C14": "checks.c14_warnings",
    "C15": "checks.c15_isolation",
    "C16": "checks.c16_html_ast",
    "C17": "checks.c17_html_blocks",
    "C18": "checks.c18_inventory",
    "C19": "checks.c19_wildcard",
    "C20": "checks.c20_security",
}


def _reexec() -> None:
    """Pin interpreter state: fixed hash seed, no bytecode written into /repo."""
    want = {
        "PYTHONHASHSEED": "0",
        "PYTHONDONTWRITEBYTECODE": "1",
        "PIP_NO_INDEX": "1",
    }
    deps = os.path.join(HERE, ".deps")
    pp = os.environ.get("PYTHONPATH", "")
    need_path = HERE not in pp.split(os.pathsep)
    if all(os.environ.get(k) == v for k, v in want.items()) and not need_path \
            and os.path.realpath(sys.executable) == os.path.realpath(PY):
        return
    env = dict(os.environ)
    env.update(want)
    # VERIF_REPO (mutation testing only): import myst_parser from another checkout instead of /repo
    alt = [os.environ["VERIF_REPO"]] if os.environ.get("VERIF_REPO") else []
    env["PYTHONPATH"] = os.pathsep.join(alt + [HERE, deps] + ([pp] if pp else []))
    os.execve(PY, [PY, os.path.abspath(__file__)] + sys.argv[1:], env)


def main() -> int:
    ap = argparse.ArgumentParser()
    ap.add_argument("id")
    ap.add_argument("--tier", default=os.environ.get("VERIF_TIER", "quick"),
                    choices=["quick", "thorough"])
    ap.add_argument("--replay")
    ap.add_argument("--workers", type=int,
                    default=int(os.environ.get("VERIF_WORKERS", "0")) or (os.cpu_count() or 4))
    args = ap.parse_args()
    _reexec()
    os.chdir(HERE)
    sys.path.insert(0, HERE)

    try:
        seed = int(os.environ.get("VERIF_SEED", "1"))
    except ValueError:
        seed = 1

    if args.id not in CHECKS:
        sys.stderr.write(f"unknown property id {args.id}\n")
        return 2
    from vlib import core

    try:
        import hypothesis  # noqa: F401
    except ImportError:
        sys.stderr.write("HARNESS-ERROR: hypothesis is not importable; run setup.sh\n")
        return 2
    # every scratch file of the run (the workers' Sphinx projects, include directories, corpora) lives under one
    # private directory that is removed when the run ends, however the worker processes were stopped
    import shutil
    import tempfile

    scratch = tempfile.mkdtemp(prefix=f"verif-run-{args.id}-")
    os.environ["TMPDIR"] = scratch
    tempfile.tempdir = scratch
    try:
        if args.replay:
            return core.run_replay(CHECKS[args.id], args.replay)
        return core.run_property(CHECKS[args.id], args.tier, seed, args.workers)
    except core.HarnessError as exc:
        sys.stderr.write(f"HARNESS-ERROR {args.id}: {exc}\n")
        return 2
    except Exception as exc:  # noqa: BLE001
        import traceback

        sys.stderr.write(f"HARNESS-ERROR {args.id}: {type(exc).__name__}: {exc}\n")
        traceback.print_exc()
        return 2
    finally:
        tempfile.tempdir = None
        shutil.rmtree(scratch, ignore_errors=True)


if __name__ == "__main__":
    sys.exit(main())
