"""atheris target for C16 (totality + tree consistency oracle inside the target)."""
import os
import sys

sys.path.insert(0, os.path.join(os.path.dirname(os.path.abspath(__file__)), ".."))
sys.path.insert(0, os.path.join(os.path.dirname(os.path.abspath(__file__)), "..", ".deps"))
import atheris  # noqa: E402

with atheris.instrument_imports(include=["myst_parser.parsers.parse_html", "html.parser", "_markupbase"]):
    import myst_parser.parsers.parse_html  # noqa: F401

from checks import c16_html_ast as chk  # noqa: E402
from vlib.core import Acc  # noqa: E402
from vlib.fuzz import TargetStats  # noqa: E402

stats = TargetStats()
acc = Acc("C16", "atheris")
known = chk.known()


def TestOneInput(data: bytes) -> None:
    text = data.decode("utf-8", "replace")
    vs = chk.check_soup(acc, text)
    stats.nontrivial = acc.nontrivial
    stats.classes = dict(acc.classes)
    stats.samples = acc.samples
    stats.tick()
    bad = [v for v in vs if not known.matches(v)]
    if bad:
        stats.flush()
        raise RuntimeError(bad[0]["signature"])


atheris.Setup(sys.argv, TestOneInput)
atheris.Fuzz()
