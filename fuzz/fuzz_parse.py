"""atheris target for C01: the whole docutils front end (Parser.parse + transforms) on arbitrary text.

The first input byte selects a configuration preset, the rest is the document.  The oracle is C01's own
(`check_case`): any exception other than the documented ones, or a result that is not a document, stops the campaign;
crash sites that are recorded findings are skipped so the search continues behind them.
"""
import os
import sys

sys.path.insert(0, os.path.join(os.path.dirname(os.path.abspath(__file__)), ".."))
sys.path.insert(0, os.path.join(os.path.dirname(os.path.abspath(__file__)), "..", ".deps"))
import atheris  # noqa: E402

with atheris.instrument_imports(include=["myst_parser", "mdit_py_plugins"]):
    import myst_parser.parsers.docutils_  # noqa: F401
    import myst_parser.mdit_to_docutils.base  # noqa: F401
    import myst_parser.mocking  # noqa: F401
    import myst_parser.parsers.directives  # noqa: F401
    import myst_parser.parsers.options  # noqa: F401
    import myst_parser.parsers.parse_html  # noqa: F401
    import myst_parser.mdit_to_docutils.html_to_nodes  # noqa: F401

from checks import c01_total as chk  # noqa: E402
from vlib.core import Acc  # noqa: E402
from vlib.fuzz import TargetStats  # noqa: E402

stats = TargetStats()
acc = Acc("C01", "atheris")
known = chk.known()


def TestOneInput(data: bytes) -> None:
    case = chk.decode_fuzz_case(data)
    vs = chk.check_case(acc, case, "docutils")
    stats.nontrivial = acc.nontrivial
    stats.classes = dict(acc.classes)
    stats.samples = acc.samples
    stats.tick(every=200)
    bad = [v for v in vs if not known.matches(v)]
    if bad:
        stats.flush()
        raise RuntimeError(bad[0]["signature"])


atheris.Setup(sys.argv, TestOneInput)
atheris.Fuzz()
