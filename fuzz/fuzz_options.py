"""atheris target for C07: oracle (PyYAML differential) inside the target."""
import os
import sys

sys.path.insert(0, os.path.join(os.path.dirname(os.path.abspath(__file__)), ".."))
sys.path.insert(0, os.path.join(os.path.dirname(os.path.abspath(__file__)), "..", ".deps"))
import atheris  # noqa: E402

with atheris.instrument_imports(include=["myst_parser.parsers.options"]):
    import myst_parser.parsers.options  # noqa: F401

from checks import c07_options as chk  # noqa: E402
from vlib.core import Acc  # noqa: E402
from vlib.fuzz import TargetStats  # noqa: E402

stats = TargetStats()
acc = Acc("C07", "atheris")
known = chk.known()


def TestOneInput(data: bytes) -> None:
    text = data.decode("utf-8", "replace")
    before = len(acc.nontrivial)
    vs = chk.check_text(acc, text)
    if len(acc.nontrivial) != before:
        stats.nontrivial = acc.nontrivial
    stats.classes = dict(acc.classes)
    stats.samples = acc.samples
    stats.tick()
    bad = [v for v in vs if not known.matches(v)]
    if bad:
        stats.flush()
        raise RuntimeError(bad[0]["signature"])


atheris.Setup(sys.argv, TestOneInput)
atheris.Fuzz()
