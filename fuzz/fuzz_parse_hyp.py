"""atheris target for C01, structure-aware: libFuzzer's bytes drive Hypothesis' choice sequence for C01's own case
generators (`all_cases()`), so coverage feedback steers *structured* documents, configurations and file faults.
The oracle is C01's `check_case`; recorded findings are skipped so the search continues behind them."""
import os
import sys

sys.path.insert(0, os.path.join(os.path.dirname(os.path.abspath(__file__)), ".."))
sys.path.insert(0, os.path.join(os.path.dirname(os.path.abspath(__file__)), "..", ".deps"))
import atheris  # noqa: E402

with atheris.instrument_imports(include=["myst_parser", "mdit_py_plugins"]):
    import myst_parser.parsers.docutils_  # noqa: F401
    import myst_parser.mdit_to_docutils.base  # noqa: F401
    import myst_parser.mocking  # noqa: F401
    import myst_parser.parsers.directives  # noqa: F401
    import myst_parser.parsers.options  # noqa: F401
    import myst_parser.parsers.parse_html  # noqa: F401
    import myst_parser.mdit_to_docutils.html_to_nodes  # noqa: F401
    import myst_parser.config.main  # noqa: F401
    import myst_parser.inventory  # noqa: F401

from checks import c01_total as chk  # noqa: E402
from vlib.core import Acc  # noqa: E402
from vlib.fuzz import TargetStats  # noqa: E402

stats = TargetStats()
acc = Acc("C01", "atheris")
known = chk.known()


def oracle(case) -> None:
    vs = chk.check_case(acc, case, "docutils")
    stats.nontrivial = acc.nontrivial
    stats.classes = dict(acc.classes)
    stats.samples = acc.samples
    bad = [v for v in vs if not known.matches(v)]
    if bad:
        stats.flush()
        raise RuntimeError(bad[0]["signature"])


test = chk.hyp_fuzz_test(oracle)


def TestOneInput(data: bytes) -> None:
    stats.tick(every=200)
    test.hypothesis.fuzz_one_input(data)


atheris.Setup(sys.argv, TestOneInput)
atheris.Fuzz()
