#!/bin/sh
# Offline bootstrap: nothing is installed into /repo. hypothesis must import in /venv,
# atheris goes to /verif/.deps (used only by the thorough tier).
set -e
cd "$(dirname "$0")"
export PIP_NO_INDEX=1
if ! /venv/bin/python -c "import hypothesis" 2>/dev/null; then
  /venv/bin/pip install --no-index --find-links /opt/veriftools/wheels hypothesis
fi
if ! PYTHONPATH=.deps /venv/bin/python -c "import atheris" 2>/dev/null; then
  /venv/bin/pip install --no-index --find-links /opt/veriftools/wheels --target .deps atheris \
    >/dev/null 2>&1 || echo "note: atheris not installable; thorough fuzz campaigns will be skipped"
fi
mkdir -p evidence replays
/venv/bin/python -c "import hypothesis, myst_parser, sphinx, docutils, yaml; print('setup ok', hypothesis.__version__)"
