"""C08 - directive text splits into arguments, options and body without loss or leakage."""

from __future__ import annotations

import itertools
import re
from importlib import import_module

from hypothesis import strategies as st

from vlib.core import Acc, Sub, hyp_run, shard_seed
from vlib.findings import Known

PROPERTY = "C08"
RULE = (
    "programs x inputs: (synthetic) one directive class per (option_spec?, required, optional, "
    "final_argument_whitespace, has_content) shape x 5 first lines x every content built from a 12-line "
    "vocabulary (':class: a', ':name: b', ':bogus: c', ':class:', '', 'text', '---', '----', 'class: a', "
    "'  indented', ':::', '   ') up to 4 (quick) / 5 (thorough) lines (all 5 first lines below the maximum length, 2 at it), exhaustively; (registry) every directive "
    "class importable from docutils' registry, Sphinx's global directives and all domain directives of a fresh "
    "app, with Hypothesis-generated option lines drawn from the class's own option_spec keys (valid and "
    "invalid values), both option styles, blank-line layouts, trailing blank lines. Oracle: reference model of "
    "the documented split (module docstring of parsers/directives.py) for body/offset, the class's own "
    "converters called directly for option values, declared argument counts for MarkupError. Non-trivial: "
    "content has an option block and a non-empty body; distinct by (class shape, first line, content)."
)
ASSUMPTIONS = [
    "option lines are simple plain 'key: value' pairs whose tokenization is C07's business; the expected pairs "
    "are obtained by running the (C07-checked) tokenizer on the option block cut out by the reference model",
    "a trailing blank line after the body may or may not be kept in the body (statement is silent); everything "
    "after the returned body must be blank",
]
FLOOR = {"quick": 2000, "thorough": 20000}

_known = None


def known() -> Known:
    global _known
    if _known is None:
        _known = Known(PROPERTY)
    return _known


# ------------------------------------------------------------------ reference model

DASHES = re.compile(r"^-{3,}")


def model_split(content: str, has_spec: bool):
    """(option_block | None, k) where k = number of content lines consumed by the option block."""
    L = content.splitlines()
    if not has_spec:
        return None, 0
    if content.startswith("---"):
        for i in range(1, len(L)):
            if DASHES.match(L[i]):
                return "\n".join(L[1:i]), i + 1
        return "\n".join(L[1:]), len(L)
    if content.lstrip().startswith(":"):
        k = 0
        while k < len(L) and L[k].lstrip().startswith(":"):
            k += 1
        return "\n".join(line.lstrip()[1:] for line in L[:k]), k
    return None, 0


def expected_args(cls, first_line: str):
    """('error', None) or ('ok', n_args)"""
    req, opt = cls.required_arguments, cls.optional_arguments
    if not (req or opt):
        return "ok", 0
    n = len(first_line.split())
    if n < req:
        return "error", None
    if n > req + opt and not cls.final_argument_whitespace:
        return "error", None
    return "ok", min(n, req + opt)


def check_case(acc, cls, first_line: str, content: str, label: str, additional=None) -> list[dict]:
    from docutils.parsers.rst.directives import flag
    from docutils.parsers.rst.states import MarkupError

    from myst_parser.parsers.directives import parse_directive_text
    from myst_parser.parsers.options import TokenizeError, options_to_items

    mk = (acc or Acc(PROPERTY, "replay")).violation
    inp = {"class": label, "first_line": first_line, "content": content, "additional": additional}
    vs = []
    L = content.splitlines()
    spec = cls.option_spec or {}
    has_spec = bool(spec)
    status, nargs = expected_args(cls, first_line)
    try:
        res = parse_directive_text(cls, first_line, content, additional_options=additional)
    except MarkupError as exc:
        if status != "error":
            vs.append(mk("C08:unexpected-MarkupError", inp, "parsed", str(exc)))
        if acc is not None:
            acc.case((label, first_line, content), False, ["markup-error"])
        return vs
    except Exception as exc:  # noqa: BLE001
        return [mk(f"C08:raises:{type(exc).__name__}", inp, "result or MarkupError", f"{type(exc).__name__}: {exc}")]
    if status == "error":
        return [mk("C08:argument-count-not-enforced", inp, "MarkupError", res.arguments)]
    # ---- arguments
    takes_args = bool(cls.required_arguments or cls.optional_arguments)
    if takes_args:
        if len(res.arguments) != nargs:
            vs.append(mk("C08:argument-count", inp, nargs, res.arguments))
        if " ".join(" ".join(res.arguments).split()) != " ".join(first_line.split()):
            vs.append(mk("C08:argument-text-lost", inp, first_line.split(), res.arguments))
        else:
            # exact split: whitespace-separated words, except that with final_argument_whitespace the last declared
            # argument is the verbatim rest of the line (its inner white space is part of the argument; trailing white
            # space is don't-care).  Written as a scan, independently of str.split(None, n).
            words = first_line.split()
            limit = cls.required_arguments + cls.optional_arguments
            if len(words) > limit:
                pos = 0
                for w in words[:limit - 1]:
                    pos = first_line.index(w, pos) + len(w)
                rest = first_line[pos:].strip()
                want_args = words[:limit - 1] + [rest]
            else:
                want_args = words
            got_args = [a.rstrip() if i == len(res.arguments) - 1 else a for i, a in enumerate(res.arguments)]
            if got_args != want_args:
                vs.append(mk("C08:argument-split-not-verbatim", inp, want_args, res.arguments))
    elif res.arguments:
        vs.append(mk("C08:arguments-for-argumentless-directive", inp, [], res.arguments))
    # ---- body / offset
    block, k = model_split(content, has_spec)
    body = list(res.body)
    off = res.body_offset
    merged = (not takes_args) and bool(first_line.strip())
    if merged:
        if not body or body[0] != first_line:
            vs.append(mk("C08:first-line-not-first-body-line", inp, first_line, body[:1]))
        if off != 0:
            vs.append(mk("C08:offset-with-merged-first-line", inp, 0, off))
        rest = body[1:]
        exp_rest = L[k:]
    else:
        exp_off = k
        exp_rest = L[k:]
        if exp_rest and not exp_rest[0].strip():
            exp_rest = exp_rest[1:]
            exp_off += 1
        rest = body
        if exp_rest and off != exp_off and any(x.strip() for x in exp_rest):
            vs.append(mk("C08:body-offset", inp, exp_off, off))
        if body and (L[off:off + len(body)] != body):
            vs.append(mk("C08:offset-does-not-index-body", inp, body, L[off:off + len(body)]))
    # body == expected lines, up to trailing blank lines
    def rstrip_blank(x):
        x = list(x)
        while x and not x[-1].strip():
            x.pop()
        return x

    if rstrip_blank(rest) != rstrip_blank(exp_rest):
        sig = "C08:body-lines-lost-or-leaked"
        vs.append(mk(sig, inp, exp_rest, rest))
    if len(rest) > len(exp_rest):
        vs.append(mk("C08:body-has-extra-lines", inp, exp_rest, rest))
    # ---- options
    wtexts = [w.msg for w in res.warnings]
    if block is not None:
        try:
            pairs, _state = options_to_items(block)
            tok_ok = True
        except TokenizeError:
            pairs, tok_ok = [], False
        if not tok_ok:
            if res.options not in ({},):
                vs.append(mk("C08:options-despite-invalid-block", inp, {}, res.options))
            if sum("Invalid options format" in w for w in wtexts) != 1:
                vs.append(mk("C08:invalid-block-not-warned-once", inp, 1, wtexts))
        else:
            given = dict(pairs)
            merged_opts = {**(additional or {}), **given}
            exp_opts = {}
            unknown = []
            invalid = []
            from docutils.parsers.rst.directives.misc import TestDirective

            if issubclass(cls, TestDirective):
                exp_opts = given
            else:
                for name, value in merged_opts.items():
                    if name not in spec:
                        unknown.append(name)
                        continue
                    conv = spec[name]
                    v = value if value else None
                    if conv is flag:
                        v = None
                    try:
                        exp_opts[name] = conv(v)
                    except Exception:  # noqa: BLE001 - any converter failure = invalid value
                        invalid.append(name)
                for name in unknown:
                    n = sum(("Unknown option keys" in w) and (repr(name) in w) for w in wtexts)
                    if n != 1:
                        vs.append(mk("C08:unknown-option-not-warned-once", inp, f"one warning naming {name!r}", wtexts))
                for name in invalid:
                    n = sum(w.startswith(f"Invalid option value for {name!r}") for w in wtexts)
                    if n != 1:
                        vs.append(mk("C08:invalid-option-not-warned-once", inp, f"one warning for {name!r}", wtexts))
                if not unknown and any("Unknown option keys" in w for w in wtexts):
                    vs.append(mk("C08:spurious-unknown-option-warning", inp, [], wtexts))
            if _cmp(res.options) != _cmp(exp_opts):
                sig = "C08:options-differ"
                if additional and any(kk in given and kk in additional for kk in given):
                    sig = "C08:block-option-does-not-override-default"
                vs.append(mk(sig, inp, _cmp(exp_opts), _cmp(res.options)))
    else:
        exp_only = {}
        if additional and has_spec:
            for name, value in additional.items():
                if name in spec:
                    try:
                        exp_only[name] = spec[name](value if value and spec[name] is not flag else None)
                    except Exception:  # noqa: BLE001
                        pass
        if _cmp(res.options) != _cmp(exp_only):
            vs.append(mk("C08:options-without-block", inp, _cmp(exp_only), _cmp(res.options)))
    # ---- content-not-permitted warning
    # (a directive that takes no content warns about a non-empty body; the statement says nothing about that warning, so
    # it is only counted)
    if acc is not None and rest and any(x.strip() for x in rest) and not cls.has_content:
        acc.classes["body-for-directive-without-content:" + ("warned" if any("none permitted" in w for w in wtexts) else "silent")] += 1
    if acc is not None:
        nontrivial = block is not None and k > 0 and any(x.strip() for x in exp_rest)
        acc.case((label, first_line, content), nontrivial,
                 ["optblock" if block is not None else "noblock", "merged-first-line" if merged else "plain"],
                 sample=inp)
    out, seen = [], set()
    for v in vs:
        if v["signature"] not in seen:
            seen.add(v["signature"])
            out.append(v)
    return out


def _cmp(opts: dict):
    return {k: repr(v) for k, v in sorted(opts.items())}


# ------------------------------------------------------------------ synthetic classes (shapes)


def make_shapes():
    from docutils.parsers.rst import Directive, directives

    shapes = {}
    for has_spec, (req, opt), faw, has_content in itertools.product(
            (True, False), ((0, 0), (1, 0), (0, 1), (1, 1), (2, 0)), (False, True), (True, False)):
        if faw and req + opt == 0:
            continue
        name = f"S(spec={int(has_spec)},req={req},opt={opt},faw={int(faw)},content={int(has_content)})"
        attrs = {
            "required_arguments": req, "optional_arguments": opt, "final_argument_whitespace": faw,
            "has_content": has_content,
            "option_spec": {"class": directives.class_option, "name": directives.unchanged,
                            "width": directives.length_or_percentage_or_unitless,
                            "flag": directives.flag} if has_spec else None,
        }
        shapes[name] = type("Synthetic", (Directive,), attrs)
    return shapes


VOCAB = [":class: a", ":name: b", ":bogus: c", ":class:", "", "text", "---", "----", "class: a", "  indented",
         ":::", "   ", ":Class: A"]   # (option names are case-sensitive: 'Class' is not a declared option)
FIRST_LINES = ["", "one", "one two three", "arg  ", "  ", "one  two   three", "a\tb  c d", " lead two"]


def sub_synthetic(acc, shard, nshards, tier, seed):
    maxlen = 4 if tier == "quick" else 5
    shapes = make_shapes()
    kn = known()
    i = 0
    # quick: every shape x first line on contents <= 3 lines, plus a fixed shape sample on 4 lines
    for n in range(maxlen + 1):
        for lines in itertools.product(VOCAB, repeat=n):
            for trailing in ("\n", ""):
                i += 1
                if i % nshards != shard:
                    continue
                content = "\n".join(lines) + (trailing if lines else "")
                for label, cls in shapes.items():
                    # first lines: all for small contents, two for the largest size
                    fls = FIRST_LINES if n < maxlen - 1 else (FIRST_LINES[:5] if n < maxlen else FIRST_LINES[:2])
                    for fl in fls:
                        for v in check_case(acc, cls, fl, content, label):
                            _store(acc, kn, v)
    acc.extra["synthetic_max_lines"] = maxlen
    acc.exhaustive = True


def _store(acc, kn, v):
    if kn.matches(v):
        acc.known_hits[v["signature"]] += 1
    elif len(acc.violations) < 8 and all(v["signature"] != w["signature"] for w in acc.violations):
        acc.violations.append(v)


# ------------------------------------------------------------------ registry classes

_REG = None


def registry_classes():
    """name -> class, from docutils' registry, Sphinx globals and all domains of a fresh app."""
    global _REG
    if _REG is not None:
        return _REG
    from docutils.parsers.rst import directives as d

    out = {}
    for name, (modname, clsname) in sorted(d._directive_registry.items()):
        try:
            mod = import_module("docutils.parsers.rst.directives." + modname)
            out["docutils:" + name] = getattr(mod, clsname)
        except Exception:  # noqa: BLE001
            continue
    from vlib import front

    with front.sphinx_project() as proj:
        for name, cls in sorted(d._directives.items()):
            if isinstance(cls, type):
                out["sphinx:" + name] = cls
        for dname in sorted(proj.app.env.domains.keys() if hasattr(proj.app.env.domains, "keys") else
                            [x.name for x in proj.app.env.domains.sorted()]):
            dom = proj.app.env.get_domain(dname)
            for name, cls in sorted(dom.directives.items()):
                if isinstance(cls, type):
                    out[f"domain:{dname}:{name}"] = cls
    _REG = out
    return out


VALUE_POOL = ["", "a", "1", "10px", "left", "a b", "50%", "-1", "true", "x.png", "3em", "center", "0", "1-3",
              "python", "abc def", "top"]


@st.composite
def registry_case(draw, names):
    label = draw(st.sampled_from(names))
    cls = registry_classes()[label]
    spec = cls.option_spec or {}
    keys = sorted(k for k in spec if isinstance(k, str))
    n_opts = draw(st.integers(0, 3))
    opts = []
    for _ in range(n_opts):
        if keys and draw(st.integers(0, 4)) > 0:
            key = draw(st.sampled_from(keys))
        else:
            key = draw(st.sampled_from(["bogus", "nosuch", "class", "name"]
                                       + ([keys[0].upper(), keys[-1].capitalize()] if keys else ["Class"])))
        opts.append((key, draw(st.sampled_from(VALUE_POOL))))
    style = draw(st.sampled_from(["colon", "dash", "none"]))
    blank_after = draw(st.integers(0, 2))
    body = draw(st.lists(st.sampled_from(["text", "more text", "", "  indented", ":notopt", "---", "```", "x = 1"]),
                         max_size=4))
    trailing = draw(st.sampled_from(["", "\n", "\n\n"]))
    lines = []
    if style == "colon" and opts:
        lines += [f":{k}: {v}".rstrip() for k, v in opts]
    elif style == "dash" and opts:
        lines += ["---"] + [f"{k}: {v}".rstrip() for k, v in opts] + ["---"]
    lines += [""] * blank_after + body
    content = "\n".join(lines) + (trailing if lines else "")
    first = draw(st.sampled_from(["", "arg", "arg1 arg2", "a b c d", " x "]))
    additional = draw(st.sampled_from([None, None, {"class": "zzz"}, {"name": "n0", "bogus2": "1"}]))
    return {"label": label, "first_line": first, "content": content, "additional": additional,
            "opts": opts, "style": style}


def check_registry(acc, case) -> list[dict]:
    cls = registry_classes()[case["label"]]
    vs = check_case(acc, cls, case["first_line"], case["content"], case["label"], case["additional"])
    # interchangeability of the two option styles
    if case["opts"] and case["style"] in ("colon", "dash") and not vs and cls.option_spec:
        from docutils.parsers.rst.states import MarkupError

        from myst_parser.parsers.directives import parse_directive_text

        opts = case["opts"]
        colon = [f":{k}: {v}".rstrip() for k, v in opts]
        dash = ["---"] + [f"{k}: {v}".rstrip() for k, v in opts] + ["---"]
        tail = ["", "body line"]
        res = []
        for head in (colon, dash):
            try:
                r = parse_directive_text(cls, case["first_line"], "\n".join(head + tail) + "\n")
                rel = r.body_offset - len(head) if r.body_offset else 0  # 0 = first line merged into body
                res.append((_cmp(r.options), r.body, sorted(w.msg for w in r.warnings), rel))
            except MarkupError:
                res.append("MarkupError")
        if res[0] != res[1]:
            mk = (acc or Acc(PROPERTY, "replay")).violation
            vs.append(mk("C08:option-styles-not-interchangeable", case, res[0], res[1]))
    return vs


def sub_registry(acc, shard, nshards, tier, seed):
    names = sorted(registry_classes())
    acc.extra["registry_classes"] = len(names)
    n = 1500 if tier == "quick" else 12000
    hyp_run(acc, registry_case(names), lambda c: check_registry(acc, c), max_examples=n,
            seed=shard_seed(seed, shard, 5), is_known=known().matches)


def plan(tier):
    return [Sub("synthetic", sub_synthetic, 16), Sub("registry", sub_registry, 16)]


def replay(sub, input):
    if sub == "registry" and "label" in input:
        return check_registry(None, input)
    label = input["class"]
    shapes = make_shapes()
    cls = shapes[label] if label in shapes else registry_classes()[label]
    return check_case(None, cls, input["first_line"], input["content"], label, input.get("additional"))
