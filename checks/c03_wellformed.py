"""C03 - every produced document is a well-formed docutils tree."""

from __future__ import annotations

import shutil
import tempfile

from hypothesis import strategies as st

from checks import c01_total as c01
from vlib import front, mdgen, wellformed
from vlib.core import Acc, Sub, hyp_run, shard_seed
from vlib.findings import Known

PROPERTY = "C03"
RULE = (
    "Documents from four generators: (doc) the full document grammar under a drawn valid configuration; (ids) "
    "identifier-collision documents - headings, '(name)=' targets, '{#name}' paragraphs / spans / headings, footnote "
    "definitions + references, labelled math, directive :name: options, duplicate definitions, '#name' links, all "
    "drawing their names from a pool of 12 (incl. all-digit ones) that includes look-alikes of docutils' automatic ids ('id1', "
    "'footnote-reference-1', 'system-message-1') and case variants; (tables) GFM tables with ragged rows, escaped "
    "pipes and inline markup, list-table / csv-table directives; (hostile) the cross-reference / footnote / attribute "
    "vocabulary of the totality check. Every case is checked twice - directly after parsing and after the full "
    "transform pipeline - through docutils, and - as read, and again after the post-transforms - through the in-process Sphinx reader. "
    "Oracle: a validity predicate over the output tree (vlib/wellformed.py): every child's parent is its container and "
    "no node is reached twice; sections only under document / section and starting with a title; transitions only "
    "under document / section; ids pairwise distinct and registered to their node; every refid of reference / "
    "footnote_reference / target / problematic and every backref names an existing id unless a 'target not found' "
    "warning was issued for it; every row as wide as tgroup['cols']; after processing every footnote starts with its "
    "label. Non-trivial: the document contains at least two of {heading, table, footnote, '#' link, directive, nested "
    "container, explicit id}; distinct by case."
)
ASSUMPTIONS = [
    "a case whose rendering raises is the business of the totality check (C01) and is skipped here (counted)",
    "row widths count column spans (morecols); tables with row spans (rST grid tables only) are skipped",
]
FLOOR = {"quick": 500, "thorough": 10000}

import re

DISCARDED = re.compile(r"\{(figure|table)\}[^\n]*\n#+ ")

_known = None


def known() -> Known:
    global _known
    if _known is None:
        _known = Known(PROPERTY)
    return _known


def check_case(acc, case, frontend) -> list[dict]:
    mk = (acc or Acc(PROPERTY, "replay")).violation
    vs = []
    text = case["text"]
    # suppression is C14's business: with it, "a warning was issued" can no longer be observed
    case = {**case, "cfg": {k: v for k, v in (case.get("cfg") or {}).items() if k != "suppress_warnings"}}
    phases = []
    tmp = None
    try:
        try:
            if frontend == "docutils":
                tmp = tempfile.mkdtemp(prefix="verif-c03-")
                cfg = dict(case.get("cfg") or {})
                settings = {"myst_" + k: v for k, v in cfg.items()}
                settings["myst_highlight_code_blocks"] = cfg.get("highlight_code_blocks", True)
                settings.update(case.get("raw_settings") or {})
                src = tmp + "/main.md"
                d0, w0 = front.docutils_parse(text, source_path=src, settings=settings)
                phases.append(("parsed", d0, w0, False))
                d1, w1 = front.docutils_publish(text, source_path=src, settings=settings)
                phases.append(("transformed", d1, w1, True))
            else:
                from myst_parser.config.main import MdParserConfig

                proj = c01.sphinx_app()
                cfg = {k: v for k, v in (case.get("cfg") or {}).items() if k not in ("suppress_warnings", "highlight_code_blocks", "inventories")}
                proj.app.env.myst_config = MdParserConfig(**cfg)
                # the tree as read (what Sphinx pickles), and the same tree after the post-transforms (what builders see)
                d2, w2 = proj.read_doc("doc", text, post_transforms=False)
                phases.append(("sphinx-read", d2.deepcopy(), w2, False))
                proj.app.env.apply_post_transforms(d2, "doc")
                phases.append(("sphinx", d2, w2 + proj.take_warnings(), True))
        except Exception as exc:  # noqa: BLE001
            if acc is not None:
                acc.excluded[f"render-raises:{type(exc).__name__}"] += 1
            return []
    finally:
        if tmp:
            shutil.rmtree(tmp, ignore_errors=True)
    for name, doc, warn, transformed in phases:
        # Sphinx lifts a field list at the very start of a document into the metadata and removes it from the tree,
        # together with any footnote reference written inside it
        docinfo_removed = name.startswith("sphinx") and text.lstrip().startswith(":")
        for code, detail in wellformed.problems(doc, transformed=transformed, warnings_text=warn, sphinx=(name == "sphinx"),
                                                docinfo_removed=docinfo_removed):
            if code.startswith("section-inside-"):
                # specific signature for the recorded finding: rST section titles in an eval-rst block inside a container
                code = "section-inside-container" + (":from-eval-rst" if "{eval-rst}" in text else "")
            if code.startswith("dangling-refid") and DISCARDED.search(text):
                # recorded finding: a directive parsed its body (registering ids / slugs) and then discarded the nodes
                code = "dangling-refid:discarded-directive-content"
            if code == "dangling-backref:footnote" and name == "transformed" and _in_unresolved_link(phases[0][1], detail, warn):
                # recorded finding: docutils replaced an unresolvable '[.. [^a] ..](name)' link by a problematic node
                code = "dangling-backref:footnote-reference-inside-unresolved-link"
            if code in ("duplicate-id", "id-registry-points-elsewhere") and _copied_into_contents(doc, detail):
                # recorded finding: docutils' Contents transform copies a title together with the warning MyST put inside it
                code = "duplicate-id:title-message-copied-into-contents"
            if code in ("duplicate-id", "id-registry-points-elsewhere") and detail.startswith("'equation-") and name.startswith("sphinx"):
                code = "duplicate-id:sphinx-equation-label"  # recorded finding: duplicate '$$ .. $$ (label)' in Sphinx
            vs.append(mk(f"C03:{code}", {**case, "frontend": frontend}, "well-formed tree", {"phase": name, "detail": detail},
                         detail=doc.pformat()[:1500]))
    if acc is not None:
        feats = [tag for tag, needle in (("heading", "# "), ("table", "|"), ("footnote", "[^"), ("idlink", "](#"),
                                         ("directive", "{"), ("nested", "> "), ("nested-list", "  - "), ("explicit-id", ")="),
                                         ("attr-id", "{#")) if needle in text]
        acc.case((frontend, case), len(feats) >= 2, [f"gen:{case.get('gen')}", f"frontend:{frontend}"] + [f"has:{f}" for f in feats],
                 sample={"gen": case.get("gen"), "frontend": frontend, "text": text[:400]})
    out, seen = [], set()
    for v in vs:
        if v["signature"] not in seen:
            seen.add(v["signature"])
            out.append(v)
    return out


def _copied_into_contents(doc, detail) -> bool:
    """Is one of the nodes that carry the id named in `detail` inside the table of contents (docutils' Contents transform
    deep-copies each title into its entry, ids included)?"""
    from docutils import nodes

    m = re.match(r"'([^']+)'", detail)
    if not m:
        return False
    for topic in doc.findall(nodes.topic):
        if "contents" in topic.get("classes", []):
            for n in topic.findall(nodes.Element):
                if m.group(1) in n.get("ids", []):
                    return True
    return False


def _in_unresolved_link(parsed_doc, detail, warn) -> bool:
    """Is the id named in `detail` that of a footnote reference which, as parsed, sat inside a by-name link whose
    name docutils then reported as unknown?"""
    from docutils import nodes

    rid = detail.strip("'\"")
    for fr in parsed_doc.findall(nodes.footnote_reference):
        if rid in fr.get("ids", []):
            p = fr.parent
            while p is not None:
                if isinstance(p, nodes.reference) and "refname" in p and "Unknown target name" in warn:
                    return True
                p = p.parent
    return False


# --------------------------------------------------------------------------- generators

NAMES = ["a", "b", "a-1", "A", "id1", "id2", "footnote-reference-1", "system-message-1", "b c", "x.y", "1", "2024"]
TITLES = ["a", "A", "b", "a 1", "id1", "b c", "Title *em*", "2024", "1"]


@st.composite
def ids_case(draw):
    blocks = []
    for _ in range(draw(st.integers(2, 9))):
        k = draw(st.integers(0, 19))
        nm = draw(st.sampled_from(NAMES))
        lab = nm.replace(" ", "-")
        if k == 0:
            blocks.append("#" * draw(st.integers(1, 3)) + " " + draw(st.sampled_from(TITLES)))
        elif k == 1:
            blocks.append(f"({nm})=\npara after target")
        elif k == 2:
            blocks.append("{#" + lab + "}\npara with id")
        elif k == 3:
            blocks.append("text [span]{#" + lab + "} more")
        elif k == 4:
            blocks.append("{#" + lab + "}\n## " + draw(st.sampled_from(TITLES)))
        elif k == 5:
            blocks.append(f"ref [^{lab}] here\n\n[^{lab}]: footnote text")
        elif k == 6:
            blocks.append(f"[^{lab}]: dangling def")
        elif k == 7:
            blocks.append(f"$$\nx = 1\n$$ ({lab})")
        elif k == 8:
            blocks.append(f"```{{note}}\n:name: {nm}\nbody\n```")
        elif k == 9:
            blocks.append(f"```{{figure}} img.png\n:name: {nm}\n\ncaption\n```")
        elif k == 10:
            blocks.append(f"[link](#{lab}) and [](#{lab}) and <project:#{lab}>")
        elif k == 11:
            blocks.append(f"({nm})=\n({draw(st.sampled_from(NAMES))})=\n# " + draw(st.sampled_from(TITLES)))
        elif k == 12:
            blocks.append(draw(st.sampled_from([
                "```{eval-rst}\n.. [#] auto rst footnote\n\nText [#]_ here\n```",
                "```{eval-rst}\n.. [#" + lab + "] labelled rst footnote\n\nText [#" + lab + "]_ here\n```",
                "```{eval-rst}\n.. [1] manual rst footnote\n\nText [1]_ here\n```",
                "```{eval-rst}\n.. _" + lab + ":\n\nrst target para, see `" + lab + "`_\n```"])))
        elif k == 13:
            t = draw(st.sampled_from(TITLES))
            wrapper = draw(st.sampled_from(["figure} img.png", "note}", "image} img.png", "code-block} python", "table} Cap", "epigraph}"]))
            blocks.append("```{" + wrapper + "\n## " + t + "\n```\n\n[](#" + t.lower().replace(" ", "-").replace("*", "") + ")")
        elif k == 16:
            # an id written on a construct that ends in an error instead of a node, and a link to that id
            failing = draw(st.sampled_from(["[obj](inv:#nosuch-object)", "[obj](inv:a:b:c:d:e#x)", "[obj](inv:nokey#x)", "{unknownrole}`x`",
                                            "![i](<>)", "[t](project:nosuch.md)"]))
            blocks.append(f"{failing}{{#{lab}}} then [to it](#{lab}) and [](#{lab})")
        elif k == 19:
            # one substitution used several times, its value carrying constructs that register with the document
            blocks.append("{{ fnsub }} and again {{ fnsub }}, {{ plainsub }} {{ plainsub }}\n\n{{ blocksub }}\n\n{{ blocksub }}\n\n[^subfn]: footnote of the substitution")
        elif k == 17:
            # a line block with nested (more deeply indented) lines: nested line_block nodes are built by hand
            blocks.append(draw(st.sampled_from([
                "```{line-block}\nline one\n  indented line\n    deeper line\nback again\n```",
                "```{line-block}\n  starts indented\nless\n      much deeper\n  middle\n```",
                "> ```{line-block}\n> a\n>   b\n>     c\n> ```"])))
        elif k == 18:
            # an HTML block whose first element is convertible and carries a name, followed by one that is not convertible
            tail = draw(st.sampled_from(["<em>x</em>", "<br>", "<p>para</p>", "<img alt=\"no src\">", ""]))
            head = draw(st.sampled_from([f'<img src="a.png" name="{lab}">', f'<div class="admonition" name="{lab}">\n<p>body</p>\n</div>']))
            blocks.append(f"{head}{tail}\n\n[to it](#{lab}) and [](#{lab})")
        elif k == 14:
            blocks.append(f"[^{lab}]: def in quote\n\n> [^{lab}]: second def [^{lab}]\n\n{lab} [^{lab}]")
        else:
            # directives that ask for section parsing of their body (Sphinx: only / ifconfig), at several heading levels
            t = draw(st.sampled_from(TITLES))
            d = draw(st.sampled_from(["only} html", "only} latex or html", "ifconfig} True", "only} html"]))
            blocks.append("````{" + d + "\n" + "#" * draw(st.integers(1, 3)) + " " + t + "\n\ninner text\n\n" + "#" * draw(st.integers(2, 4))
                          + " " + draw(st.sampled_from(TITLES)) + "\n````")
    cfg = {"enable_extensions": ["attrs_block", "attrs_inline", "dollarmath", "colon_fence", "html_image", "html_admonition", "substitution"],
           "substitutions": {"fnsub": "see [^subfn]", "plainsub": "*plain* `value`", "blocksub": "- item [^subfn]\n- two"},
           "heading_anchors": draw(st.sampled_from([0, 2, 3])), "footnote_sort": draw(st.booleans())}
    return {"gen": "ids", "text": "\n\n".join(blocks) + "\n", "cfg": cfg}


CELLS = ["a", "", "*em*", "`c|d`", "a \\| b", "[l](#a)", "[^f]", "$x$", "<b>", "{#i}", "long cell text", "~~s~~"]


@st.composite
def table_case(draw):
    ncol = draw(st.integers(1, 4))
    parts = []
    for _ in range(draw(st.integers(1, 3))):
        kind = draw(st.integers(0, 3))
        if kind <= 1:
            head = "| " + " | ".join(draw(st.sampled_from(CELLS)) or "h" for _ in range(ncol)) + " |"
            sep = "|" + "|".join(draw(st.sampled_from(["---", ":--", "--:", ":-:"])) for _ in range(ncol)) + "|"
            rows = []
            for _ in range(draw(st.integers(0, 4))):
                n = draw(st.integers(0, ncol + 2))
                row = "| " + " | ".join(draw(st.sampled_from(CELLS)) for _ in range(n)) + (" |" if draw(st.booleans()) else "")
                rows.append(row if n else "|")
            t = "\n".join([head, sep] + rows)
            w = draw(st.sampled_from([None, None, "quote", "list", "note"]))
            if w == "quote":
                t = "\n".join("> " + ln for ln in t.split("\n"))
            elif w == "list":
                t = "\n".join(("- " if i == 0 else "  ") + ln for i, ln in enumerate(t.split("\n")))
            elif w == "note":
                t = "```{note}\n" + t + "\n```"
            parts.append(t)
        elif kind == 2:
            nrow = draw(st.integers(1, 3))
            lines = []
            for _ in range(nrow):
                n = draw(st.sampled_from([ncol, ncol, ncol, ncol + 1, max(1, ncol - 1)]))
                for j in range(n):
                    lines.append(("* - " if j == 0 else "  - ") + draw(st.sampled_from(CELLS[:5])))
            hdr = draw(st.sampled_from(["", ":header-rows: 1\n", ":widths: auto\n"]))
            parts.append("```{list-table} T\n" + hdr + "\n" + "\n".join(lines) + "\n```")
        else:
            rows = [", ".join(draw(st.sampled_from(["a", "b", "", "1"])) for _ in range(draw(st.integers(1, ncol + 1))))
                    for _ in range(draw(st.integers(1, 3)))]
            parts.append("```{csv-table} T\n" + draw(st.sampled_from(["", ":header: h1, h2\n"])) + "\n" + "\n".join(rows) + "\n```")
    parts.append("[^f]: note\n\n(a)=\npara")
    cfg = {"enable_extensions": ["attrs_inline", "dollarmath", "strikethrough"]}
    return {"gen": "tables", "text": "\n\n".join(parts) + "\n", "cfg": cfg}


@st.composite
def hostile8(draw):
    for _ in range(20):
        c = draw(c01.hostile_case())
        if c["gen"] in ("hostile8", "hostile5", "hostile2", "hostile6"):
            return c
    return c


@st.composite
def restricted_case(draw):
    """A document with several raw-producing / file-reading constructs under the docutils security switches (docutils
    front end only): the nodes put in place of the refused constructs are tree nodes like any other."""
    pieces = draw(st.lists(st.sampled_from([
        "<div>\nhtml block\n</div>", "para <b>inline</b> html <i>twice</i>", "hard  \nbreak and another  \nbreak", "a\\\nb",
        "```{raw} html\n<p>raw</p>\n```", "```{eval-rst}\n.. raw:: html\n\n   <p>x</p>\n```", "~~strike~~ and ~~again~~",
        "```{include} nosuch.md\n```", "```{csv-table}\n:file: nosuch.csv\n```", "> <span>in quote</span>", "- <br> in list\n- <hr>",
        "| <b>cell</b> | <i>c2</i> |\n|---|---|\n| x | y |", "plain paragraph", "# Heading <em>html</em>"]), min_size=2, max_size=6))
    return {"gen": "restricted", "text": "\n\n".join(pieces) + "\n", "cfg": {"enable_extensions": ["strikethrough"]},
            "raw_settings": {"raw_enabled": draw(st.booleans()), "file_insertion_enabled": draw(st.booleans())}}


def all_cases():
    return st.one_of(c01.doc_case(), c01.doc_case(), ids_case(), ids_case(), table_case(), hostile8(), restricted_case())


def sub_docutils(acc, shard, nshards, tier, seed):
    n = 200 if tier == "quick" else 6000
    hyp_run(acc, all_cases(), lambda c: check_case(acc, c, "docutils"), max_examples=n,
            seed=shard_seed(seed, shard, 3), is_known=known().matches)


def sub_sphinx(acc, shard, nshards, tier, seed):
    n = 120 if tier == "quick" else 3000
    hyp_run(acc, all_cases(), lambda c: check_case(acc, c, "sphinx"), max_examples=n,
            seed=shard_seed(seed, shard, 13), is_known=known().matches)


def plan(tier):
    return [Sub("docutils", sub_docutils, 12), Sub("sphinx", sub_sphinx, 4)]


def replay(sub, input):
    case = dict(input)
    frontend = case.pop("frontend", "sphinx" if sub == "sphinx" else "docutils")
    return check_case(None, case, frontend)
