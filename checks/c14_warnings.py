"""C14 - warnings: closed typed catalogue; suppression has no side effects."""

from __future__ import annotations

import ast
import glob
import itertools
import os
import re
import shutil
import tempfile

from hypothesis import strategies as st

from vlib import front, slugfuncs  # noqa: F401  (slugfuncs is loaded by dotted path)
from vlib.core import Acc, Sub, hyp_run, shard_seed
from vlib.findings import Known

PROPERTY = "C14"
RULE = (
    "Hypothesis documents assembled from trigger fragments for every reachable catalogue entry (topmatter, "
    "duplicate_def, header, directive_parse, directive_option, directive_comments, directive_unknown, role_unknown, "
    "not_supported, xref_missing, inv_retrieval, iref_missing, iref_ambiguous, heading_slug, strikethrough, attribute, "
    "substitution, deprecated, ref.footnote for unreferenced and duplicate definitions) in arbitrary combination and "
    "order, each at top level or inside a block quote / list item / admonition, plus filler blocks; suppress lists = "
    "every single tag present, 'myst', 'myst.*', 'ref', unrelated tags, and random subsets. Oracles: (closed) every "
    "log line and system_message ending in '[myst.X]' has X in the MystWarnings catalogue, and every generated "
    "trigger emits the tag the catalogue documents for it, with the same multiset of tags from the docutils and the "
    "Sphinx front end for front-end independent triggers; (suppress, metamorphic) the run with suppress list S equals "
    "the run with the empty list after deleting exactly the log lines and system_message nodes whose tag S matches "
    "(type, type.subtype or type.*): same order of the remaining lines, same pformat of the remaining tree; (static) "
    "the AST of every create_warning / log_warning / logger.warning(type=...) call in myst_parser/ passes a "
    "MystWarnings member, a catalogue literal, or an explicit non-myst type. Non-trivial: >= 2 distinct tags present "
    "and the suppress list matches some but not all warnings; distinct by (document, suppress list)."
)
RULE += (' The Sphinx front end runs with keep_warnings so that system messages are observable in its doctree.')
ASSUMPTIONS = [
    "'every catalogue warning is emitted' is read as 'whenever emitted, tagged': render (foreign plugin), html "
    "(unreachable parse failure), xref_ambiguous / domains (need a second domain object / a legacy domain) are not "
    "triggered by generated documents; they are covered by the static call-site enumeration only",
    "Sphinx removes system_message nodes from the doctree by design, so in the Sphinx front end the relation is "
    "checked on the log and on the remaining tree",
]
FLOOR = {"quick": 300, "thorough": 6000}

EXTS = ["strikethrough", "attrs_inline", "substitution", "colon_fence"]

# fragment name -> (lines, expected tags (multiset, as list), front-end independent?)
FRAGMENTS = {
    "duplicate_def": (["[dupdef]: https://e.org/a", "", "[dupdef]: https://e.org/b"], ["myst.duplicate_def"], True),
    "directive_parse": (["```{image} img.png", "content that is not permitted", "```"], ["myst.directive_parse"], True),
    "directive_option": (["```{note}", ":bogusoption: 1", "body", "```"], ["myst.directive_option"], True),
    "directive_comments": (["```{note}", ":class: a # a comment", "body", "```"], ["myst.directive_comments"], True),
    "directive_unknown": (["```{nosuchdirective}", "```"], ["myst.directive_unknown"], True),
    "role_unknown": (["text {nosuchrole}`x` text"], ["myst.role_unknown"], True),
    "not_supported": (["see <path:file.txt> here"], ["myst.not_supported"], False),
    "xref_missing": (["see [text](#nosuchtarget) here"], ["myst.xref_missing"], True),
    "iref_missing": (["see <inv:#nosuchobject> here"], ["myst.iref_missing"], False),
    "iref_ambiguous": (["see <inv:#dup*> here"], ["myst.iref_ambiguous"], False),
    "strikethrough": (["some ~~gone~~ text"], ["myst.strikethrough"], True),
    "attribute": (["![alt](b.png){h=notalength}"], ["myst.attribute"], True),
    "substitution": (["value {{ undefinedvariable }} here"], ["myst.substitution"], True),
    "heading_strike": (["## Head ~~gone~~ tail"], ["myst.strikethrough"], True),
    "heading_nested_role": (["## Head **bold {nosuchrole}`x` text** tail"], ["myst.role_unknown"], True),
    "heading_nested_sub": (["### Head *em [link {{ undefinedvariable }}](https://e.org) em* tail"], ["myst.substitution"], True),
    "heading_nested_strike": (["## Head [text **~~gone~~**](https://e.org)"], ["myst.strikethrough"], True),
    "xref_missing_empty": (["see [](#nosuchtarget) and <project:#nosuchtarget2> here"], ["myst.xref_missing", "myst.xref_missing"], True),
    "footnote_unreferenced": (["[^unref]: never referenced"], ["ref.footnote"], True),
    "footnote_duplicate": (["[^fdup]: one", "", "[^fdup]: two", "", "uses [^fdup]"], ["ref.footnote"], True),
}
SPECIAL = ["topmatter", "header", "heading_slug", "inv_retrieval", "deprecated", "inv_bad_header", "inv_bad_zlib"]
WRAPS = [None, None, "quote", "list", "note"]

_known = None
_CATALOGUE = None


def known() -> Known:
    global _known
    if _known is None:
        _known = Known(PROPERTY)
    return _known


def catalogue() -> set:
    global _CATALOGUE
    if _CATALOGUE is None:
        from myst_parser.warnings_ import MystWarnings

        _CATALOGUE = {m.value for m in MystWarnings}
    return _CATALOGUE


def wrap(lines, w):
    if w is None:
        return lines
    if w == "quote":
        return [("> " + ln) if ln else ">" for ln in lines]
    if w == "list":
        return [("- " + ln) if i == 0 else (("  " + ln) if ln else "") for i, ln in enumerate(lines)]
    return ["````{tip}"] + lines + ["````"]


def build(case, tmp):
    """-> (text, settings, expected tags list, independent tags list)"""
    blocks = []
    tags, indep = [], []
    settings = {"myst_enable_extensions": list(EXTS)}
    specials = set(case.get("special", []))
    pre = []
    if "topmatter" in specials:
        pre = ["---", "myst:", "  nosuchfield: 1", "---", ""]
        tags.append("myst.topmatter")
        indep.append("myst.topmatter")
    if "header" in specials:
        blocks.append(["#### Deep first heading"])
        tags.append("myst.header")
        indep.append("myst.header")
    if "heading_slug" in specials:
        settings["myst_heading_anchors"] = 2
        settings["myst_heading_slug_func"] = "vlib.slugfuncs.raising"
        blocks.append(["## Slug heading"])
        tags.append("myst.heading_slug")
        indep.append("myst.heading_slug")
        if "header" not in specials:
            tags.append("myst.header")  # document headings start at H2
            indep.append("myst.header")
    n_inv = sum(1 for it in case["items"] if it["frag"] in ("iref_missing", "iref_ambiguous"))
    invs = {"good": ["https://e.org/", os.path.join(tmp, "objects.inv")]}
    if "inv_retrieval" in specials and n_inv:
        invs["bad"] = ["https://bad.org/", os.path.join(tmp, "nosuch.inv")]
        tags.append("myst.inv_retrieval")
    # ... and inventories whose file exists but cannot be read as one (the same catalogue entry covers every failure)
    if "inv_bad_header" in specials and n_inv:
        with open(os.path.join(tmp, "garbage.inv"), "wb") as fh:
            fh.write(b"this is not an inventory\n")
        invs["bad2"] = ["https://bad2.org/", os.path.join(tmp, "garbage.inv")]
        tags.append("myst.inv_retrieval")
    if "inv_bad_zlib" in specials and n_inv:
        with open(os.path.join(tmp, "damaged.inv"), "wb") as fh:
            fh.write(b"# Sphinx inventory version 2\n# Project: p\n# Version: 1\n# The remainder of this file is compressed using zlib.\n"
                     b"certainly not a zlib stream")
        invs["bad3"] = ["https://bad3.org/", os.path.join(tmp, "damaged.inv")]
        tags.append("myst.inv_retrieval")
    settings["myst_inventories"] = invs
    if "deprecated" in specials:
        settings["myst_enable_extensions"] = list(EXTS) + ["attrs_image"]
        tags.append("myst.deprecated")
    for i, it in enumerate(case["items"]):
        if it["frag"] == "filler":
            blocks.append(wrap([f"Filler paragraph {i} with *emphasis* and `code`."], it.get("wrap")))
            continue
        lines, ftags, ind = FRAGMENTS[it["frag"]]
        lines = [ln.replace("dupdef", f"dupdef{i}").replace("unref", f"unref{i}").replace("fdup", f"fdup{i}") for ln in lines]
        blocks.append(wrap(list(lines), it.get("wrap")))
        tags.extend(ftags)
        if ind:
            indep.extend(ftags)
    text = "\n".join(pre) + ("\n" if pre else "") + "\n\n".join("\n".join(b) for b in blocks) + "\n"
    return text, settings, tags, indep


def write_inventory(tmp):
    import zlib

    body = "dupa py:function 1 api.html#$ -\ndupb py:function 1 api.html#$ -\nother std:label -1 index.html#other Other\n"
    data = ("# Sphinx inventory version 2\n# Project: p\n# Version: 1\n# The remainder of this file is compressed using zlib.\n").encode() \
        + zlib.compress(body.encode())
    with open(os.path.join(tmp, "objects.inv"), "wb") as fh:
        fh.write(data)


TAG_RE = re.compile(r"\[([a-z]+)\.([a-z_]+)\]\s*$")


def line_tag(line):
    m = TAG_RE.search(line)
    return (m.group(1), m.group(2)) if m else None


def matches(tag, S) -> bool:
    """The documented rule: a bare type, 'type.subtype' or 'type.*'."""
    if tag is None:
        return False
    t, sub = tag
    for s in S:
        if "." in s:
            a, b = s.split(".", 1)
        else:
            a, b = s, None
        if a == t and b in (None, sub, "*"):
            return True
    return False


def strip_suppressed(doc, S):
    """Remove, in place, the system_message nodes whose tag is matched by S."""
    from docutils import nodes

    for sm in list(doc.findall(nodes.system_message)):
        txt = sm.astext().strip().split("\n")[0] if sm.children else ""
        first = sm[0].astext() if len(sm) else ""
        tag = line_tag(first.strip())
        if matches(tag, S) and sm.parent is not None:
            sm.parent.remove(sm)
    return doc


def _from_option_string(value: str):
    """What docutils makes of --myst-suppress-warnings=<value> (its option parser runs the setting's validator)."""
    import warnings

    from docutils.frontend import OptionParser

    from myst_parser.parsers.docutils_ import Parser

    with warnings.catch_warnings():
        warnings.simplefilter("ignore")
        values = OptionParser(components=(Parser,), read_config_files=False).parse_args([f"--myst-suppress-warnings={value}"])
    return values.myst_suppress_warnings


def check_case(acc, case, project=None) -> list[dict]:
    mk = (acc or Acc(PROPERTY, "replay")).violation
    tmp = tempfile.mkdtemp(prefix="verif-c14-")
    vs = []
    S = list(case["suppress"])
    frontend = "sphinx" if project is not None or case.get("frontend") == "sphinx" else "docutils"
    try:
        write_inventory(tmp)
        text, settings, tags, indep = build(case, tmp)
        src = os.path.join(tmp, "main.md")
        try:
            if frontend == "docutils":
                S_run = S
                if case.get("sep"):
                    S_run = _from_option_string(case["sep"].join(S))
                d0, w0 = front.docutils_publish(text, source_path=src, settings={**settings, "myst_suppress_warnings": []})
                d1, w1 = front.docutils_publish(text, source_path=src, settings={**settings, "myst_suppress_warnings": S_run})
            else:
                from myst_parser.config.main import MdParserConfig

                own = None
                if project is None:
                    own = project = front.SphinxProject(confoverrides={"keep_warnings": True})
                try:
                    cfg = {k[5:]: v for k, v in settings.items() if k not in ("myst_inventories",)}
                    project.app.env.myst_config = MdParserConfig(**cfg)
                    project.app.config.suppress_warnings = []
                    d0, w0 = project.read_doc("doc", text)
                    project.app.config.suppress_warnings = list(S)
                    d1, w1 = project.read_doc("doc", text)
                    project.app.config.suppress_warnings = []
                finally:
                    if own is not None:
                        own.close()
        except Exception as exc:  # noqa: BLE001
            return [mk(f"C14:render-raises:{type(exc).__name__}", case, "two documents", f"{type(exc).__name__}: {exc}")]
    finally:
        shutil.rmtree(tmp, ignore_errors=True)
    l0 = [ln.replace(tmp, "<tmp>") for ln in front.warning_lines(w0)]
    l1 = [ln.replace(tmp, "<tmp>") for ln in front.warning_lines(w1)]
    # keep only the first line of multi-line messages for tag analysis, but compare everything
    tags0 = [line_tag(ln) for ln in l0]
    present = [f"{t[0]}.{t[1]}" for t in tags0 if t]
    # (closed) catalogue
    for t in tags0:
        if t and t[0] == "myst" and t[1] not in catalogue():
            vs.append(mk("C14:tag-outside-catalogue", case, sorted(catalogue()), f"myst.{t[1]}"))
    from docutils import nodes

    for sm in d0.findall(nodes.system_message):
        first = sm[0].astext().strip() if len(sm) else ""
        t = line_tag(first)
        if t and t[0] == "myst" and t[1] not in catalogue():
            vs.append(mk("C14:tag-outside-catalogue", case, sorted(catalogue()), f"myst.{t[1]}"))
    # every trigger emits its documented tag (multiset inclusion: other constructs may add more of the same)
    want = list(tags if frontend == "docutils" else [t for t in indep])
    have = list(present)
    missing = []
    for t in want:
        if t in have:
            have.remove(t)
        else:
            missing.append(t)
    if missing:
        vs.append(mk(f"C14:trigger-without-its-tag:{frontend}", case, {"expected_tags": sorted(want)}, {"missing": missing, "log": l0[:10]}))
    # (suppress) metamorphic relation on the log
    exp_lines = []
    skip_cont = False
    for ln in l0:
        t = line_tag(ln)
        starts = bool(re.match(r"^(?:<tmp>|/|<string>|\S+\.md)", ln))
        if starts:
            skip_cont = False
        if matches(t, S):
            continue
        exp_lines.append(ln)
    if l1 != exp_lines:
        extra = [x for x in l1 if x not in exp_lines]
        lost = [x for x in exp_lines if x not in l1]
        vs.append(mk(f"C14:suppression-changes-log:{frontend}", case, {"should_remain": exp_lines[:12]},
                     {"extra": extra[:6], "lost": lost[:6], "order_differs": not extra and not lost}))
    # (suppress) metamorphic relation on the tree
    a = strip_suppressed(d0, S).pformat()
    b = d1.pformat()
    if a != b:
        i = next((j for j in range(min(len(a), len(b))) if a[j] != b[j]), min(len(a), len(b)))
        sig = f"C14:suppression-changes-doctree:{frontend}"
        if frontend == "docutils" and any(it["frag"] == "xref_missing_empty" for it in case["items"]) and matches(("myst", "xref_missing"), S):
            # recorded finding: is the only difference the '#target' text of the text-less missing links?
            a2 = re.sub(r"\n\s*<inline classes=\"std std-ref\">\n\s*#nosuchtarget2?", "", b)
            if a2 == a:
                sig = "C14:suppression-changes-doctree:text-less-missing-xref"
        vs.append(mk(sig, case, a[max(0, i - 200):i + 300], b[max(0, i - 200):i + 300]))
    if acc is not None:
        n_match = sum(1 for t in tags0 if matches(t, S))
        n_tagged = sum(1 for t in tags0 if t)
        nt = len(set(present)) >= 2 and 0 < n_match < n_tagged
        acc.case((frontend, case), nt, [f"frontend:{frontend}"] + sorted({"tag:" + p for p in present})
                 + [f"suppress:{'none' if not S else 'some'}", f"matched:{min(n_match, 5)}"],
                 sample={"text": text, "suppress": S, "log_unsuppressed": l0[:8]})
    out, seen = [], set()
    for v in vs:
        if v["signature"] not in seen:
            seen.add(v["signature"])
            out.append(v)
    return out


# --------------------------------------------------------------------------- strategies

frag_names = sorted(FRAGMENTS)


@st.composite
def case_st(draw, sphinx=False):
    names = [n for n in frag_names if not sphinx or FRAGMENTS[n][2]]
    items = []
    for _ in range(draw(st.integers(1, 7))):
        f = draw(st.sampled_from(names + ["filler"]))
        items.append({"frag": f, "wrap": draw(st.sampled_from(WRAPS))})
    special = draw(st.lists(st.sampled_from(["topmatter", "header", "heading_slug"] + ([] if sphinx else ["inv_retrieval", "deprecated", "inv_bad_header", "inv_bad_zlib"])),
                            max_size=3, unique=True))
    # candidate suppress entries: the tags this document can emit, the bare types, wildcards, unrelated ones
    poss = set()
    for it in items:
        if it["frag"] != "filler":
            poss.update(FRAGMENTS[it["frag"]][1])
    for s in special:
        poss.add("myst." + {"topmatter": "topmatter", "header": "header", "heading_slug": "heading_slug", "inv_retrieval": "inv_retrieval",
                            "deprecated": "deprecated", "inv_bad_header": "inv_retrieval", "inv_bad_zlib": "inv_retrieval"}[s])
    pool = sorted(poss) + ["myst", "myst.*", "ref", "ref.*", "docutils", "myst.nosuch", "other.thing", "ref.footnote", "myst.header"]
    S = draw(st.lists(st.sampled_from(pool), max_size=4, unique=True))
    case = {"items": items, "special": special, "suppress": S}
    if not sphinx and len(S) >= 2 and draw(st.booleans()):
        # the setting written as docutils' users write it: one comma-separated string on the command line / in docutils.conf
        case["sep"] = draw(st.sampled_from([",", ", ", " , ", ",  ", " ,"]))
    return case


def sub_random(acc, shard, nshards, tier, seed):
    n = 120 if tier == "quick" else 4000
    hyp_run(acc, case_st(), lambda c: check_case(acc, c), max_examples=n,
            seed=shard_seed(seed, shard, 14), is_known=known().matches)


def sub_sphinx(acc, shard, nshards, tier, seed):
    n = 60 if tier == "quick" else 1500
    # keep_warnings: Sphinx otherwise strips every system_message from the doctree it hands back, and 'removed from
    # the doctree as well as from the log' could not be observed in this front end
    with front.sphinx_project(confoverrides={"keep_warnings": True}) as project:
        hyp_run(acc, case_st(sphinx=True), lambda c: check_case(acc, c, project), max_examples=n,
                seed=shard_seed(seed, shard, 15), is_known=known().matches)


def _record(acc, vs):
    kn = known()
    for v in vs:
        if kn.matches(v):
            acc.known_hits[v["signature"]] += 1
        elif len(acc.violations) < 8 and all(v["signature"] != x["signature"] for x in acc.violations):
            acc.violations.append(v)


def sub_each(acc, shard, nshards, tier, seed):
    """Every trigger (alone and next to one other) x every wrapper x the suppress lists {its tag, bare type, type.*, the
    other's tag, unrelated}: exhaustive."""
    i = 0
    all_frags = frag_names
    for f in all_frags:
        for w in [None, "quote", "list", "note"]:
            for g in [None] + [x for x in ("role_unknown", "footnote_unreferenced", "directive_option") if x != f]:
                tag = FRAGMENTS[f][1][0]
                typ = tag.split(".")[0]
                sup_lists = [[tag], [typ], [typ + ".*"], ["myst.nosuch"], []]
                if g:
                    sup_lists.append([FRAGMENTS[g][1][0]])
                for S in sup_lists:
                    i += 1
                    if i % nshards != shard:
                        continue
                    items = [{"frag": "filler", "wrap": None}, {"frag": f, "wrap": w}]
                    if g:
                        items.append({"frag": g, "wrap": None})
                    _record(acc, check_case(acc, {"items": items, "special": [], "suppress": S}))
    for sp in SPECIAL:
        for S in ([], ["myst"], ["myst." + {"topmatter": "topmatter", "header": "header", "heading_slug": "heading_slug",
                                              "inv_retrieval": "inv_retrieval", "deprecated": "deprecated",
                                              "inv_bad_header": "inv_retrieval", "inv_bad_zlib": "inv_retrieval"}[sp]]):
            i += 1
            if i % nshards != shard:
                continue
            _record(acc, check_case(acc, {"items": [{"frag": "iref_missing", "wrap": None}, {"frag": "role_unknown", "wrap": None}],
                                          "special": [sp], "suppress": S}))
    acc.exhaustive = True


# --------------------------------------------------------------------------- static call-site enumeration


def sub_static(acc, shard, nshards, tier, seed):
    import myst_parser
    from myst_parser.warnings_ import MystWarnings

    if shard != 0:
        return
    mk = acc.violation
    members = {m.name for m in MystWarnings}
    values = {m.value for m in MystWarnings}
    root = os.path.dirname(myst_parser.__file__)
    n_sites = 0
    for path in sorted(glob.glob(os.path.join(root, "**", "*.py"), recursive=True)):
        rel = os.path.relpath(path, root)
        tree = ast.parse(open(path).read())
        for node in ast.walk(tree):
            if not isinstance(node, ast.Call):
                continue
            fn = node.func
            name = fn.attr if isinstance(fn, ast.Attribute) else getattr(fn, "id", None)
            kw = {k.arg: k.value for k in node.keywords if k.arg}
            sub = None
            typ = None
            if name == "create_warning":
                # (document?, message, subtype, ...): subtype is the first MystWarnings / str argument after the message
                args = list(node.args)
                cand = [a for a in args if isinstance(a, ast.Attribute) and isinstance(a.value, ast.Name) and a.value.id == "MystWarnings"]
                if "subtype" in kw:
                    sub = kw["subtype"]
                elif cand:
                    sub = cand[0]
                elif len(args) >= 2:
                    sub = args[-1] if isinstance(args[-1], (ast.Constant, ast.Attribute, ast.Name)) else None
                typ = kw.get("wtype")
            elif name == "log_warning":
                args = list(node.args)
                sub = kw.get("subtype") or (args[2] if len(args) >= 3 else None)
            elif name == "warning" and ("subtype" in kw or "type" in kw):
                sub = kw.get("subtype")
                typ = kw.get("type")
            elif name == "ParseWarnings":
                args = list(node.args)
                sub = kw.get("type") or (args[2] if len(args) >= 3 else None)
                if sub is None:
                    continue  # default = MystWarnings.DIRECTIVE_PARSING (checked as the dataclass default below)
            else:
                continue
            n_sites += 1
            where = f"{rel}:{node.lineno}"
            verdict = None
            typ_lit = typ.value if isinstance(typ, ast.Constant) else None
            if typ is not None and typ_lit not in (None, "myst"):
                verdict = "explicit-non-myst-type"
            elif isinstance(sub, ast.Attribute) and isinstance(sub.value, ast.Name) and sub.value.id == "MystWarnings":
                verdict = "member" if sub.attr in members else None
            elif isinstance(sub, ast.Attribute) and sub.attr == "value" and isinstance(sub.value, ast.Attribute) \
                    and getattr(sub.value.value, "id", None) == "MystWarnings":
                verdict = "member" if sub.value.attr in members else None
            elif isinstance(sub, ast.Constant) and isinstance(sub.value, str):
                verdict = "literal" if sub.value in values else None
            elif isinstance(sub, (ast.Name, ast.Attribute)):
                verdict = "forwarded-variable"   # e.g. a wrapper passing its own parameter on / _warning.type
            if verdict is None:
                _record(acc, [mk("C14:call-site-outside-catalogue", {"site": where, "code": ast.unparse(node)[:200]},
                                 "MystWarnings member / catalogue literal / explicit non-myst type", ast.dump(sub)[:200] if sub is not None else None)])
            acc.case(("static", where), verdict in ("member", "literal", "explicit-non-myst-type"), ["static", f"site:{verdict}"],
                     sample={"site": where, "verdict": verdict})
    acc.extra["warning_call_sites_evaluated"] = n_sites
    acc.exhaustive = True


LEGACY_CONF = '''
from sphinx.domains import Domain


class LegacyDomain(Domain):
    """A third-party domain that predates resolve_any_xref."""
    name = "legacy"
    label = "Legacy"

    def resolve_xref(self, env, fromdocname, builder, typ, target, node, contnode):
        return None


def setup(app):
    app.add_domain(LegacyDomain)
'''


def check_domains(acc, case) -> list[dict]:
    """The catalogue entry that only a Sphinx project with a third-party domain can reach (myst.domains), and the
    missing-reference warning next to it: tags inside the catalogue, suppression removes exactly what it names."""
    mk = (acc or Acc(PROPERTY, "replay")).violation
    S = list(case["suppress"])
    files = {"index.md": "# Index\n\n[text](no-such-reference) and [](also-missing)\n\n~~strike~~\n"}
    vs = []
    try:
        with front.sphinx_project(confoverrides={"suppress_warnings": S, "myst_enable_extensions": ["strikethrough"]}, files=files,
                                  conf_text=LEGACY_CONF, buildername="text") as proj:
            warn = proj.build()
            lines = [ln.replace(proj.src, "<src>") for ln in front.warning_lines(warn)]
    except Exception as exc:  # noqa: BLE001
        return [mk(f"C14:render-raises:{type(exc).__name__}", case, "a build", f"{type(exc).__name__}: {exc}")]
    tags = [line_tag(ln) for ln in lines]
    for t in tags:
        if t and t[0] == "myst" and t[1] not in catalogue():
            vs.append(mk("C14:tag-outside-catalogue", case, sorted(catalogue()), f"myst.{t[1]}"))
    want = {"myst.domains": 1, "myst.xref_missing": 2, "myst.strikethrough": 1}
    for tag, n in want.items():
        t = tuple(tag.split("."))
        exp_n = 0 if matches(t, S) else n
        got_n = sum(1 for x in tags if x == t)
        if got_n != exp_n:
            vs.append(mk("C14:suppression-changes-log:sphinx-domains" if S else "C14:trigger-without-its-tag:sphinx-domains", case,
                         {tag: exp_n}, {"count": got_n, "log": lines[:8]}))
    if acc is not None:
        acc.case(("domains", tuple(S)), True, ["frontend:sphinx", "tag:myst.domains", f"suppress:{'none' if not S else 'some'}"],
                 sample={"suppress": S, "log": lines[:6]})
    return vs


def sub_domains(acc, shard, nshards, tier, seed):
    for i, S in enumerate(([], ["myst.domains"], ["myst.xref_missing"], ["myst"], ["myst.*"], ["myst.legacy_domain"], ["ref"],
                           ["myst.domains", "myst.strikethrough"])):
        if i % nshards != shard:
            continue
        _record(acc, check_domains(acc, {"suppress": S}))
    acc.exhaustive = True


def plan(tier):
    return [Sub("each", sub_each, 8), Sub("random", sub_random, 10), Sub("sphinx", sub_sphinx, 4 if tier == "quick" else 12),
            Sub("static", sub_static, 1), Sub("domains", sub_domains, 2)]


def replay(sub, input):
    case = dict(input)
    if sub == "sphinx":
        case["frontend"] = "sphinx"
    if sub == "domains":
        return check_domains(None, case)
    if sub == "static":
        acc = Acc(PROPERTY, sub)
        sub_static(acc, 0, 1, "quick", 1)
        return acc.violations
    return check_case(None, case)
