"""C07 - the directive-option tokenizer agrees with YAML on its subset and fails only
with TokenizeError.

Oracle: PyYAML's *event* stream (no resolver: every scalar is a string).  A text is
inside the subset iff the events are exactly one implicit document holding one block
mapping at column 0 whose keys and values are un-anchored, un-tagged scalars, with
every key scalar starting at column 0 (rules out explicit '?' keys) and no tab
outside a scalar's span.  Inside: pairs must be equal.  Outside: return value or
TokenizeError with a position inside the text; anything else is a violation.
"""

from __future__ import annotations

import itertools

import yaml
from hypothesis import strategies as st

from vlib.core import Acc, CaseTimeout, Sub, hyp_run, shard_seed, watchdog
from vlib.findings import Known

PROPERTY = "C07"
RULE = (
    "(a) exhaustive enumeration of all strings up to length 5 (quick) / 6 (thorough) over "
    "the 14-character alphabet [a : space LF # ' \" | > - + \\ 1 TAB]; (b) Hypothesis "
    "grammar of option blocks (5 scalar styles, multi-line plain/quoted scalars, all "
    "escapes, block-scalar headers, comments, blank lines, 6 line-break kinds, BOM) plus "
    "character-level mutations of them; (c) atheris/libFuzzer campaign on UTF-8 text "
    "(thorough). Oracle = PyYAML event stream. A case is non-trivial when it is inside "
    "the YAML subset and has >=1 pair whose value is non-plain or multi-line; distinct by text."
)
ASSUMPTIONS = [
    "PyYAML 6.0.3 pure-python parser is a conforming YAML 1.1 loader on the subset; "
    "when it and myst disagree, ruamel.yaml (YAML 1.2) is consulted and a case where the "
    "two reference loaders disagree with each other is counted as unspecified, not a violation",
    "the subset requires the mapping and every key to start at column 0 (the tokenizer "
    "documents 'expected key to start at column 0') and no tab used as separation white space",
]
FLOOR = {"quick": 500, "thorough": 5000}

ALPHABET = "a: \n#'\"|>-+\\1\t"

_known = None


def known() -> Known:
    global _known
    if _known is None:
        _known = Known(PROPERTY)
    return _known


# ---------------------------------------------------------------- oracle


def yaml_reference(text: str, loader=None):
    """Return ("inside", pairs, styles) or ("outside", reason, None)."""
    try:
        events = list(yaml.parse(text, Loader=loader or yaml.SafeLoader))
    except yaml.YAMLError as exc:
        return "outside", f"yaml-{type(exc).__name__}", None
    except Exception as exc:  # PyYAML bug on odd input: treat as outside
        return "outside", f"yaml-crash-{type(exc).__name__}", None
    names = [type(e).__name__ for e in events]
    if names == ["StreamStartEvent", "StreamEndEvent"]:
        if "\t" in text:
            return "outside", "tab", None
        return "inside", [], []
    if len(events) < 6 or names[:3] != [
        "StreamStartEvent", "DocumentStartEvent", "MappingStartEvent"
    ] or names[-3:] != ["MappingEndEvent", "DocumentEndEvent", "StreamEndEvent"]:
        return "outside", "shape", None
    if "?" in text:
        # the '? key' (explicit / complex key) form is not among the subset's key forms; the event stream does not show
        # it, the token stream does: an explicit KeyToken covers the indicator, an implicit one has no width
        try:
            if any(type(t).__name__ == "KeyToken" and t.end_mark.index > t.start_mark.index
                   for t in yaml.scan(text, Loader=loader or yaml.SafeLoader)):
                return "outside", "explicit-key", None
        except yaml.YAMLError:
            return "outside", "explicit-key", None
    ds, ms, de = events[1], events[2], events[-2]
    if ds.explicit or de.explicit or ds.tags or ds.version:
        return "outside", "explicit-document", None
    if ms.flow_style or ms.anchor is not None or ms.tag is not None:
        return "outside", "mapping-props", None
    if ms.start_mark.column != 0:
        return "outside", "indented-mapping", None
    scalars = events[3:-3]
    if len(scalars) % 2:
        return "outside", "shape", None
    spans = []
    for i, e in enumerate(scalars):
        if type(e).__name__ != "ScalarEvent":
            return "outside", "non-scalar", None
        if e.anchor is not None or e.tag is not None:
            return "outside", "scalar-props", None
        if i % 2 == 0 and e.start_mark.column != 0:
            return "outside", "key-not-col0", None
        if i % 2 == 1 and e.start_mark.column == 0 and e.start_mark.index != e.end_mark.index:
            # PyYAML leniency: the YAML grammar requires a mapping value on a later
            # line to be indented by at least one space (s-separate(n+1)).
            return "outside", "value-at-col0", None
        spans.append((e.start_mark.index, e.end_mark.index))
    if "\t" in text:
        for idx, ch in enumerate(text):
            if ch == "\t" and not any(a <= idx < b for a, b in spans):
                return "outside", "tab", None
    pairs = [(scalars[i].value, scalars[i + 1].value) for i in range(0, len(scalars), 2)]
    styles = [scalars[i + 1].style for i in range(0, len(scalars), 2)]
    return "inside", pairs, styles


def ruamel_pairs(text: str):
    try:
        import ruamel.yaml
        from ruamel.yaml.events import ScalarEvent

        y = ruamel.yaml.YAML(typ="safe", pure=True)
        events = list(y.parse(text))
    except Exception:
        return None
    sc = [e for e in events if isinstance(e, ScalarEvent)]
    others = [type(e).__name__ for e in events if not isinstance(e, ScalarEvent)]
    if sorted(others) != sorted([
        "StreamStartEvent", "DocumentStartEvent", "MappingStartEvent",
        "MappingEndEvent", "DocumentEndEvent", "StreamEndEvent",
    ]) or len(sc) % 2:
        return None
    return [(sc[i].value, sc[i + 1].value) for i in range(0, len(sc), 2)]


_HANGS = {"n": 0}     # non-terminating inputs met by this worker process


def _stop_after_hangs(acc) -> bool:
    """An enumeration that keeps meeting non-terminating inputs has made its point: stop the shard (each costs the
    watchdog's 5 s, and a hang usually affects a whole family of inputs)."""
    if _HANGS["n"] >= 3:
        acc.exhaustive = False
        if not any("non-terminating" in n for n in acc.notes):
            acc.notes.append("enumeration stopped after 3 non-terminating inputs")
        return True
    return False


def check_text(acc: Acc | None, text: str) -> list[dict]:
    """The plain oracle on one text."""
    from myst_parser.parsers.options import TokenizeError, options_to_items

    mk = (lambda *a, **k: Acc(PROPERTY, "replay").violation(*a, **k)) if acc is None else acc.violation
    kind, ref, styles = yaml_reference(text)
    err = None
    got = None
    try:
        with watchdog(5):
            got = [tuple(p) for p in options_to_items(text)[0]]
    except TokenizeError as exc:
        err = exc
    except CaseTimeout:
        _HANGS["n"] += 1
        return [mk("C07:nontermination", text, "terminates", "no result after 5 s (inputs are at most a few dozen characters)")]
    except RecursionError:
        return [mk("C07:exc:RecursionError", text, "pairs or TokenizeError", "RecursionError")]
    except Exception as exc:  # noqa: BLE001
        import traceback

        tb = traceback.extract_tb(exc.__traceback__)
        fn = next((f.name for f in reversed(tb) if "myst_parser" in f.filename), tb[-1].name)
        return [mk(f"C07:exc:{type(exc).__name__}:{fn}", text,
                   "pairs or TokenizeError", f"{type(exc).__name__}: {exc}")]

    vs = []
    cls = []
    nontrivial = False
    if err is not None:
        cls.append("tokenize_error")
        mark = err.problem_mark
        idx = getattr(mark, "index", None)
        if not isinstance(idx, int) or not (0 <= idx <= len(text)):
            vs.append(mk("C07:error-position-outside-text", text,
                         f"0 <= index <= {len(text)}", repr(mark)))
        elif isinstance(getattr(mark, "line", None), int) and isinstance(getattr(mark, "column", None), int):
            # the three coordinates of the position must name one and the same place in the text: (line, column) recomputed
            # from the index with the YAML line breaks (LF, CR LF as one, CR, NEL, LS, PS)
            line = col = 0
            i = 0
            while i < idx:
                ch = text[i]
                if ch == "\r" and i + 1 < len(text) and text[i + 1] == "\n":
                    if i + 1 < idx:
                        line, col = line + 1, 0
                        i += 2
                        continue
                    col += 1
                elif ch in "\n\r\x85\u2028\u2029":
                    line, col = line + 1, 0
                elif ch != "\ufeff":      # (a byte order mark has no width, as in PyYAML's marks)
                    col += 1
                i += 1
            if (mark.line, mark.column) != (line, col):
                vs.append(mk("C07:error-position-inconsistent", text, {"index": idx, "line": line, "column": col}, repr(mark)))
        # the documented offsets (the block's place in the enclosing document) shift every reported position by the
        # same amount, on every line: the error still names the same character
        try:
            options_to_items(text, line_offset=3, column_offset=4)
            vs.append(mk("C07:error-depends-on-offsets", text, "TokenizeError", "returned pairs when offsets were given"))
        except TokenizeError as exc2:
            for which in ("problem_mark", "context_mark"):
                m0, m2 = getattr(err, which, None), getattr(exc2, which, None)
                if (m0 is None) != (m2 is None):
                    vs.append(mk("C07:error-offset-not-applied", text, f"{which} present in both", [repr(m0), repr(m2)]))
                elif m0 is not None and all(isinstance(getattr(m0, a, None), int) for a in ("line", "column")):
                    if (m2.line, m2.column) != (m0.line + 3, m0.column + 4):
                        vs.append(mk("C07:error-offset-not-applied", text,
                                     {which: [m0.line + 3, m0.column + 4]}, [m2.line, m2.column]))
        except Exception as exc2:  # noqa: BLE001
            vs.append(mk(f"C07:exc-with-offsets:{type(exc2).__name__}", text, "TokenizeError", repr(exc2)))
        if not isinstance(err.problem, str) or not str(err):
            vs.append(mk("C07:error-without-message", text, "message", repr(err.problem)))
    if kind == "inside":
        cls.append("inside")
        if err is not None:
            alt = ruamel_pairs(text)
            if alt is not None and [tuple(p) for p in alt] == [tuple(p) for p in ref]:
                vs.append(mk("C07:rejects-subset-text", text, ref,
                             f"TokenizeError: {err.problem}"))
            else:
                cls.append("unspecified:reference-loaders-disagree")
                if acc is not None:
                    acc.unspecified["reference-loaders-disagree"] += 1
        elif got != [tuple(p) for p in ref]:
            alt = ruamel_pairs(text)
            if alt is not None and [tuple(p) for p in alt] == got:
                cls.append("unspecified:reference-loaders-disagree")
                if acc is not None:
                    acc.unspecified["reference-loaders-disagree"] += 1
            else:
                vs.append(mk("C07:pairs-differ", text, ref, got))
        if any(s is not None or "\n" in v for s, (_, v) in zip(styles, ref)):
            nontrivial = True
            cls.append("inside-nonplain-or-multiline")
        for s in styles:
            cls.append(f"style:{s or 'plain'}")
    else:
        cls.append("outside:" + ref)
    if acc is not None:
        acc.case(text, nontrivial, cls, sample={"text": text, "kind": kind,
                                               "reference": ref if kind == "inside" else ref,
                                               "myst": got if err is None else f"TokenizeError: {err.problem}"})
    return vs


# ---------------------------------------------------------------- (a) exhaustive


def sub_enum(acc: Acc, shard: int, nshards: int, tier: str, seed: int) -> None:
    maxlen = 5 if tier == "quick" else 6
    kn = known()
    i = 0
    for n in range(maxlen + 1):
        for tup in itertools.product(ALPHABET, repeat=n):
            i += 1
            if i % nshards != shard:
                continue
            text = "".join(tup)
            if _stop_after_hangs(acc):
                return
            for v in check_text(acc, text):
                if kn.matches(v):
                    acc.known_hits[v["signature"]] += 1
                elif len(acc.violations) < 8 and all(
                    v["signature"] != w["signature"] for w in acc.violations
                ):
                    acc.violations.append(v)  # enumeration order = length-lex, already minimal
    acc.exhaustive = True
    acc.extra["enumerated_max_length"] = maxlen
    acc.extra["enumeration_alphabet"] = ALPHABET


ROOTS = [
    # (prefix, alphabet of the enumerated suffix): the scalar forms whose shortest interesting inputs are longer than
    # the flat enumeration reaches (a block scalar needs 'k: |\n a' = 7 characters before anything happens)
    ("k: |\n", " a\n#"), ("k: >\n", " a\n#"), ("k: |-\n", " a\n"), ("k: |+\n", " a\n"), ("k: >-\n", " a\n"),
    ("k: >+\n", " a\n"), ("k: |1\n", " a\n"), ("k: |2\n", " a\n"), ("k: >1-\n", " a\n"), ("k: | #c\n", " a\n"),
    ("k: |\n a\n", " b\n:"), ("k: >\n a\n", " b\n:"), ("k: |\n  a\n", " b\n"), ("k: >\n\n  a\n", " b\n"),
    ('k: "', 'a \n\\"'), ("k: '", "a \n'#"), ('k: "a\n', ' b\n\\"'), ("k: 'a\n", " b\n'"),
    ("k: a", " b\n#:"), ("k: a\n", " b\n#:"), ("k:\n", " a\n:#"), ("k: a\nj: ", "b \n|>'"), ('k: "\\', 'xuU0aF "\n'),
]


def sub_enum_rooted(acc: Acc, shard: int, nshards: int, tier: str, seed: int) -> None:
    maxlen = 5 if tier == "quick" else 7
    kn = known()
    i = 0
    for prefix, alpha in ROOTS:
        for n in range(maxlen + 1):
            for tup in itertools.product(alpha, repeat=n):
                i += 1
                if i % nshards != shard:
                    continue
                text = prefix + "".join(tup)
                if _stop_after_hangs(acc):
                    return
                for v in check_text(acc, text):
                    if kn.matches(v):
                        acc.known_hits[v["signature"]] += 1
                    elif len(acc.violations) < 8 and all(v["signature"] != w["signature"] for w in acc.violations):
                        acc.violations.append(v)
    # numeric escapes of double-quoted scalars: every (position, digit) with the other digits all 0 / all F, boundary
    # code points, truncated and non-hex forms - in key and in value position
    n_esc = 0
    for letter, width in (("x", 2), ("u", 4), ("U", 8)):
        forms = set()
        for pos in range(width):
            for d in "0123456789abcdefABCDEF":
                for fill in "0fF":
                    forms.add(fill * pos + d + fill * (width - pos - 1))
        for cp in (0, 1, 9, 0xA, 0xD, 0x7F, 0x80, 0x85, 0xA0, 0xFF, 0x100, 0x2028, 0xD7FF, 0xD800, 0xDFFF, 0xE000, 0xFEFF, 0xFFFE,
                   0xFFFF, 0x10000, 0x10FFFF, 0x110000, 0x7FFFFFFF, 0x80000000, 0xFFFFFFFF):
            if cp < 16 ** width:
                forms.add(format(cp, f"0{width}x"))
                forms.add(format(cp, f"0{width}X"))
        for k in range(width):
            forms.add("1" * k)            # truncated
            forms.add("1" * k + "g")      # non-hex digit
        for body in sorted(forms):
            for tmpl in ('k: "\\{L}{B}"', 'k: "a\\{L}{B}b"\n', '"\\{L}{B}": v', 'k: "\\{L}{B}'):
                i += 1
                if i % nshards != shard:
                    continue
                n_esc += 1
                text = tmpl.format(L=letter, B=body)
                if _stop_after_hangs(acc):
                    return
                for v in check_text(acc, text):
                    if kn.matches(v):
                        acc.known_hits[v["signature"]] += 1
                    elif len(acc.violations) < 8 and all(v["signature"] != w["signature"] for w in acc.violations):
                        acc.violations.append(v)
    acc.exhaustive = True
    acc.extra["rooted_enumeration"] = {"max_suffix_length": maxlen, "roots": len(ROOTS)}
    acc.extra["escape_forms_evaluated"] = n_esc


# ---------------------------------------------------------------- (b) grammar

BREAKS = st.sampled_from(["\n"] * 12 + ["\r\n", "\r", "\x85", " ", " "])
PLAIN_START = "abcxyzABC019_./()=,;$~^"
PLAIN_CHARS = PLAIN_START + "-:#!&*?|>'\"%@`[]{}\\+ é中\U0001f600"


@st.composite
def plain_word(draw, first=True):
    head = draw(st.sampled_from(PLAIN_START)) if first else ""
    body = draw(st.text(alphabet=st.sampled_from(PLAIN_START * 4 + PLAIN_CHARS.replace(" ", "")),
                        max_size=6))
    return head + body


@st.composite
def plain_line(draw):
    words = draw(st.lists(plain_word(), min_size=1, max_size=4))
    seps = [draw(st.sampled_from([" ", " ", "  ", "   "])) for _ in words[1:]]
    out = words[0]
    for s, w in zip(seps, words[1:]):
        out += s + w
    return out


@st.composite
def plain_value(draw, brk):
    lines = [draw(plain_line())]
    for _ in range(draw(st.integers(0, 3))):
        blanks = draw(st.sampled_from([0, 0, 0, 1, 2]))
        ind = " " * draw(st.integers(1, 4))
        lines.extend([draw(st.sampled_from(["", " ", "   "]))] * blanks)
        lines.append(ind + draw(plain_line()))
    trail = draw(st.sampled_from(["", "", " ", "  #c", " # c : d"]))
    return brk.join(lines) + trail


ESCAPES = ["\\0", "\\a", "\\b", "\\t", "\\\t", "\\n", "\\v", "\\f", "\\r", "\\e", "\\ ",
           '\\"', "\\\\", "\\/", "\\N", "\\_", "\\L", "\\P"]
HEX = "0123456789abcdefABCDEF"


@st.composite
def dq_piece(draw):
    k = draw(st.integers(0, 9))
    if k <= 3:
        return draw(st.text(alphabet="abc xyz'#:-|>é中", min_size=1, max_size=6))
    if k == 4:
        return draw(st.sampled_from(ESCAPES))
    if k == 5:
        return "\\x" + draw(st.text(alphabet=HEX, min_size=2, max_size=2))
    if k == 6:
        return "\\u" + draw(st.text(alphabet=HEX, min_size=4, max_size=4))
    if k == 7:
        # \U: mostly valid code points, sometimes out of range / surrogates
        n = draw(st.one_of(st.integers(0, 0x10FFFF), st.integers(0x110000, 0xFFFFFFFF),
                           st.integers(0xD800, 0xDFFF)))
        return "\\U%08x" % n
    if k == 8:
        return draw(st.sampled_from(["\\q", "\\x4", "\\u12", "\\", "\\1"]))
    return draw(st.sampled_from(["  ", "\t", " \t "]))


@st.composite
def dq_value(draw, brk):
    parts = []
    for _ in range(draw(st.integers(0, 5))):
        parts.append(draw(dq_piece()))
        if draw(st.integers(0, 5)) == 0:
            esc = draw(st.sampled_from(["", "", "\\"]))
            parts.append(esc + brk * draw(st.integers(1, 3)) + " " * draw(st.integers(0, 4)))
    return '"' + "".join(parts) + '"'


@st.composite
def sq_value(draw, brk):
    parts = []
    for _ in range(draw(st.integers(0, 5))):
        parts.append(draw(st.one_of(
            st.text(alphabet="abc xyz\"#:-|>\\é", min_size=1, max_size=6),
            st.just("''"), st.sampled_from(["  ", "\t"]))))
        if draw(st.integers(0, 5)) == 0:
            parts.append(draw(st.sampled_from(["", " ", "\t"])) + brk * draw(st.integers(1, 3))
                         + " " * draw(st.integers(0, 4)))
    return "'" + "".join(parts) + "'"


@st.composite
def block_value(draw, brk):
    style = draw(st.sampled_from("|>"))
    chomp = draw(st.sampled_from(["", "", "+", "-"]))
    explicit = draw(st.sampled_from([None, None, None, 1, 2, 3, 9, 0]))
    ind = "" if explicit is None else str(explicit)
    header = style + draw(st.sampled_from([chomp + ind, ind + chomp]))
    header += draw(st.sampled_from(["", "", " ", " # comment", "  #x", " x"]))
    base = draw(st.integers(1, 4)) if explicit is None else max(explicit, 1)
    lines = []
    for _ in range(draw(st.integers(0, 5))):
        k = draw(st.integers(0, 7))
        if k == 0:
            lines.append("")
        elif k == 1:
            lines.append(" " * draw(st.integers(0, 6)))
        else:
            extra = draw(st.sampled_from([0, 0, 0, 1, 2, -1]))
            body = draw(st.text(alphabet="abc xyz#:'\"|>-\té", min_size=1, max_size=8))
            lines.append(" " * max(0, base + extra) + body)
    tail = draw(st.sampled_from(["", brk, brk + brk]))
    if lines and draw(st.integers(0, 3)) == 0:
        # a final partial line of white space around the block indentation, without a line break
        tail = brk + " " * max(0, base + draw(st.sampled_from([-1, 0, 0, 1])))
    return header + brk + brk.join(lines) + tail


@st.composite
def key_text(draw):
    k = draw(st.integers(0, 9))
    if k <= 5:
        return draw(plain_word())
    if k == 6:
        return draw(plain_word()) + " " + draw(plain_word())
    if k == 7:
        return "'" + draw(st.text(alphabet="ab c:#\"", max_size=5)) + "'"
    if k == 8:
        return '"' + draw(st.text(alphabet="ab c:#'", max_size=5)) + '"'
    return draw(st.sampled_from(["", "-a", "?a", "a:b", "a#b", "- a", "? a", "a b c", "!a", "&a", "*a"]))


@st.composite
def option_block(draw):
    brk = draw(BREAKS)
    out = []
    if draw(st.integers(0, 19)) == 0:
        out.append("\ufeff")
    for _ in range(draw(st.integers(0, 4))):
        pre = draw(st.integers(0, 11))
        if pre == 0:
            out.append("# a comment" + brk)
        elif pre == 1:
            out.append(brk)
        elif pre == 2:
            out.append("   " + brk)
        elif pre == 3:
            out.append(" ")  # indented key (outside the subset)
        key = draw(key_text())
        sep = draw(st.sampled_from([": ", ": ", ": ", ":  ", ":", " : ", ":" + brk + "  ", ":\t"]))
        kind = draw(st.integers(0, 9))
        if kind <= 2:
            val = draw(plain_value(brk))
        elif kind <= 4:
            val = draw(dq_value(brk))
        elif kind == 5:
            val = draw(sq_value(brk))
        elif kind <= 7:
            val = draw(block_value(brk))
        elif kind == 8:
            val = ""
        else:
            val = draw(st.sampled_from(["[a, b]", "{a: b}", "- a", "&x a", "*x", "!!str a",
                                        "a: b", "|", ">", "? a", "@a", "`a", "%a"]))
        out.append(key + sep + val + draw(st.sampled_from([brk, brk, brk, "", brk + brk])))
    return "".join(out)


@st.composite
def mutated_block(draw):
    text = draw(option_block())
    for _ in range(draw(st.integers(0, 3))):
        if not text:
            break
        i = draw(st.integers(0, len(text) - 1))
        op = draw(st.integers(0, 2))
        ch = draw(st.sampled_from(list(ALPHABET) + ["\r", "\x85", " ", "\x00", "\ufeff", "\\", "\t"]))
        if op == 0:
            text = text[:i] + text[i + 1:]
        elif op == 1:
            text = text[:i] + ch + text[i:]
        else:
            text = text[:i] + ch + text[i + 1:]
    return text


def sub_grammar(acc: Acc, shard: int, nshards: int, tier: str, seed: int) -> None:
    n = 1500 if tier == "quick" else 40000
    kn = known()
    hyp_run(acc, st.one_of(option_block(), option_block(), option_block(), mutated_block(),
                           mutated_block(), st.text(max_size=30)),
            lambda t: check_text(acc, t),
            max_examples=n, seed=shard_seed(seed, shard), is_known=kn.matches)


# ---------------------------------------------------------------- (c) atheris


FUZZ_DICT = [": ", "|", "|+", "|-2", ">", ">-", "'", '"', "\\U0011", "\\x41", "\\u2028", " #",
             "\n  ", "\r\n", "\x85", "\u2028", "---", "''", "\\\n"]
FUZZ_SEEDS = [b"a: b\n", b"key: |\n  line\n\n  more\nk2: 'it''s'\n", b'a: "x\\n\\x41 \\\n   y"\nb: >-\n  f\n  g\n',
              b"a: b c\n  d  # comment\n\nc:\n"]


def sub_atheris(acc: Acc, shard: int, nshards: int, tier: str, seed: int) -> None:
    from vlib import fuzz

    # half of the campaigns start from an empty corpus, half from small valid blocks
    fuzz.run_campaign(acc, "fuzz/fuzz_options.py", runs=600000, seed=shard_seed(seed, shard),
                      recheck=lambda text: check_text(acc, text), known=known(),
                      dictionary=FUZZ_DICT, seeds=FUZZ_SEEDS if shard % 2 else None)


def plan(tier: str) -> list[Sub]:
    subs = [Sub("enum", sub_enum, 16), Sub("rooted", sub_enum_rooted, 16),
            Sub("grammar", sub_grammar, 16 if tier == "thorough" else 12)]
    if tier == "thorough":
        subs.append(Sub("atheris", sub_atheris, 4))
    return subs


def replay(sub: str, input) -> list[dict]:
    return check_text(None, input)
