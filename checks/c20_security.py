"""C20 - docutils security settings (raw_enabled / file_insertion_enabled) are honoured for every input."""

from __future__ import annotations

import os
import re
import shutil
import sys
import tempfile

from hypothesis import strategies as st

from vlib import front
from vlib.core import Acc, HarnessError, Sub, hyp_run, shard_seed
from vlib.findings import Known

PROPERTY = "C20"
RULE = (
    "Hypothesis documents in which every raw-capable construct (HTML block, inline HTML in paragraph / heading / "
    "emphasis / table cell, {raw} directive, role derived from raw via the role directive, eval-rst with '.. raw::' "
    "and an rST raw-derived role, hard break, strikethrough, substitution whose value is HTML, html_admonition div "
    "with inner HTML) carries a unique sentinel tag '<vs-N ...>' and every file-reading construct ({include} plain / "
    ":literal: / :code: / of a file that itself contains raw HTML, {raw} :file:, {raw} :url: file://, {csv-table} "
    ":file: / :url:, eval-rst '.. include::' / raw :file: / csv-table :file:) names a sentinel file whose content is "
    "'VFILE<N>Z'; constructs are nested 0-3 deep in block quotes, bullet / ordered lists, backtick and colon "
    "admonitions, colon divs, definition lists and footnote definitions. Each document is published (doctree and "
    "html5 output) under raw_enabled x file_insertion_enabled (4 runs). Oracle: raw off => no nodes.raw in the "
    "doctree and no '<vs-N' opener in the output; file insertion off => no VFILE<N>Z in tree or output and an audit "
    "hook (sys.addaudithook, event 'open') saw no open of any sentinel file; at least one 'disabled/deactivated' "
    "warning per refused construct; every marker paragraph present exactly once, in order, with the same ancestor "
    "chain in all 4 runs; with both on the sentinels are present (positive control). Non-trivial: >= 2 construct "
    "kinds with at least one nested; distinct by case."
)
RULE += (" File names are written relative, absolute and in docutils' '<...>' standard-include form.")
ASSUMPTIONS = [
    "docutils front end (publish_doctree / publish_string html5), halt_level=5",
    "file reads are observed through the CPython audit event 'open' (covers io.open, Path.read_text, urllib file://)",
    "PIL is not installed, so image :scale: (which reads the image in the writer) is not generated",
]
FLOOR = {"quick": 300, "thorough": 5000}

EXTS = ["strikethrough", "colon_fence", "deflist", "substitution", "html_admonition"]

RAW_BLOCK = ["html_block", "raw_dir", "evalrst_raw", "evalrst_rawrole", "html_admon"]
RAW_INLINE = ["html_inline", "raw_role", "strike", "hardbreak", "subst_html"]
INLINE_CTX = ["para", "heading", "em", "cell", "li"]
FILE_KINDS = ["inc", "inc_literal", "inc_code", "inc_rawhtml", "raw_file", "raw_url", "csv_file", "csv_url",
              "rst_include", "rst_raw_file", "rst_csv_file", "rst_include_literal",
              # other spellings of the file name: absolute, and docutils' '<...>' "standard include" form (which joins the
              # name onto docutils' own data directory, so an absolute or dotted name inside the brackets reaches any file)
              "inc_abs", "inc_angle", "inc_angle_literal", "inc_angle_code", "rst_include_angle",
              # a file that does not exist: the refusal does not depend on (or reveal) what is on the disk
              "inc_missing"]
NEEDS_RAW_TOO = {"raw_file", "raw_url", "rst_raw_file"}
WRAPS = ["quote", "ul", "ol", "note", "tip", "div", "dd", "foot"]

_known = None
_WATCH = {"dir": None}
_OPENED: list = []
_hook_installed = False


def known() -> Known:
    global _known
    if _known is None:
        _known = Known(PROPERTY)
    return _known


def _install_hook():
    global _hook_installed
    if _hook_installed:
        return

    def _hook(event, args):
        if event != "open":
            return
        d = _WATCH["dir"]
        if d is None:
            return
        p = args[0]
        try:
            p = os.fsdecode(p) if isinstance(p, (bytes, os.PathLike)) else p
        except Exception:
            return
        if isinstance(p, str) and os.path.basename(p).startswith("sent") and d in os.path.abspath(p):
            _OPENED.append(os.path.basename(p))

    sys.addaudithook(_hook)
    _hook_installed = True


# --------------------------------------------------------------------------- builder


def wrap(lines, w, n):
    """Wrap block lines in a container.  Returns lines."""
    if w == "quote":
        return [("> " + ln) if ln else ">" for ln in lines]
    if w in ("ul", "ol"):
        m = "- " if w == "ul" else "1. "
        pad = " " * len(m)
        return [(m + ln) if i == 0 else ((pad + ln) if ln else "") for i, ln in enumerate(lines)]
    if w in ("note", "tip", "div"):
        ch = "`" if w == "note" else ":"
        longest = 2
        for ln in lines:
            m = re.match(r"\s*(" + re.escape(ch) + r"{3,})", ln)
            if m:
                longest = max(longest, len(m.group(1)))
        f = ch * (longest + 1)
        head = f + ("{note}" if w == "note" else "{tip}" if w == "tip" else "")
        return [head] + lines + [f]
    if w == "dd":
        return [f"Term{n}"] + [(": " + ln) if i == 0 else (("  " + ln) if ln else "") for i, ln in enumerate(lines)]
    if w == "foot":
        first = f"[^fn{n}]: "
        return [(first + ln) if i == 0 else (("    " + ln) if ln else "") for i, ln in enumerate(lines)]
    raise ValueError(w)


def build(case, tmpdir):
    """-> (text, markers in order, items annotated)"""
    blocks = []
    markers = []
    files = {}
    need_role = any(it["kind"] == "raw_role" for it in case["items"])
    subs = {}
    mk = 0

    def marker():
        nonlocal mk
        m = f"Mk{mk}x"
        mk += 1
        markers.append(m)
        return m

    if need_role:
        blocks.append(["```{role} vrawrole(raw)", ":format: html", "```"])
    for it in case["items"]:
        n = it["n"]
        k = it["kind"]
        tag = f'<vs-{n} a="1">'
        vf = f"VFILE{n}Z"
        lines = None
        if k in RAW_INLINE:
            if k == "html_inline":
                payload = tag
            elif k == "raw_role":
                payload = "{vrawrole}`" + tag + "`"
            elif k == "strike":
                payload = f"~~struck{n}~~"
            elif k == "hardbreak":
                payload = "\\\nafter"
            else:  # subst_html
                subs[f"vsub{n}"] = tag
                payload = "{{ vsub" + str(n) + " }}"
            a, b = marker(), marker()
            ctx = it.get("ctx", "para")
            if k == "hardbreak" and ctx in ("heading", "cell"):
                ctx = "para"
            if ctx == "para":
                lines = [f"{a} {payload} {b}"]
            elif ctx == "heading":
                lines = [f"## {a} {payload} {b}"]
            elif ctx == "em":
                lines = [f"{a} *em {payload} em* {b}"]
            elif ctx == "cell":
                lines = [f"| {a} {payload} | c{n} |", "|---|---|", f"| {b} | d |"]
            else:
                lines = [f"- {a} {payload} {b}"]
            lines = "\n".join(lines).split("\n")
        else:
            a = marker()
            pre = [a, ""]
            if k == "html_block":
                body = ["<div>", tag + "inner", "</div>"]
            elif k == "raw_dir":
                body = ["```{raw} html", tag, "```"]
            elif k == "evalrst_raw":
                body = ["```{eval-rst}", ".. raw:: html", "", "   " + tag, "```"]
            elif k == "evalrst_rawrole":
                body = ["```{eval-rst}", f".. role:: rr{n}(raw)", "   :format: html", "", f"rst text :rr{n}:`{tag}` end", "```"]
            elif k == "html_admon":
                body = ['<div class="admonition note">', '<p class="title">T</p>', f"<p>{tag}x</p>", "</div>"]
            elif k == "inc":
                files[f"sent{n}.md"] = f"{vf} para\n"
                body = [f"```{{include}} sent{n}.md", "```"]
            elif k == "inc_literal":
                files[f"sent{n}.md"] = f"{vf} para\n"
                body = [f"```{{include}} sent{n}.md", ":literal:", "```"]
            elif k == "inc_code":
                files[f"sent{n}.md"] = f"{vf} = 1\n"
                body = [f"```{{include}} sent{n}.md", ":code: python", "```"]
            elif k == "inc_missing":
                body = [f"```{{include}} nosuch-file-{n}.md", "```"]
            elif k == "inc_abs":
                files[f"sent{n}.md"] = f"{vf} para\n"
                body = [f"```{{include}} {tmpdir}/sent{n}.md", "```"]
            elif k == "inc_angle":
                files[f"sent{n}.md"] = f"{vf} para\n"
                body = [f"```{{include}} <{tmpdir}/sent{n}.md>", "```"]
            elif k == "inc_angle_literal":
                files[f"sent{n}.md"] = f"{vf} para\n"
                body = [f"```{{include}} <{tmpdir}/sent{n}.md>", ":literal:", "```"]
            elif k == "inc_angle_code":
                files[f"sent{n}.md"] = f"{vf} = 1\n"
                body = [f"```{{include}} <{tmpdir}/sent{n}.md>", ":code: python", "```"]
            elif k == "rst_include_angle":
                files[f"sent{n}.rst"] = f"{vf} para\n"
                body = ["```{eval-rst}", f".. include:: <{tmpdir}/sent{n}.rst>", "```"]
            elif k == "inc_rawhtml":
                files[f"sent{n}.md"] = f"{vf} para\n\n<div>\n{tag}\n</div>\n\ninline {tag} html\n"
                body = [f"```{{include}} sent{n}.md", "```"]
            elif k == "raw_file":
                files[f"sent{n}.html"] = f"<p>{vf}</p>\n"
                body = ["```{raw} html", f":file: sent{n}.html", "```"]
            elif k == "raw_url":
                files[f"sent{n}.html"] = f"<p>{vf}</p>\n"
                body = ["```{raw} html", f":url: file://{tmpdir}/sent{n}.html", "```"]
            elif k == "csv_file":
                files[f"sent{n}.csv"] = f"{vf}, b\n"
                body = ["```{csv-table}", f":file: sent{n}.csv", "```"]
            elif k == "csv_url":
                files[f"sent{n}.csv"] = f"{vf}, b\n"
                body = ["```{csv-table}", f":url: file://{tmpdir}/sent{n}.csv", "```"]
            elif k == "rst_include":
                files[f"sent{n}.rst"] = f"{vf} para\n"
                body = ["```{eval-rst}", f".. include:: sent{n}.rst", "```"]
            elif k == "rst_include_literal":
                files[f"sent{n}.rst"] = f"{vf} para\n"
                body = ["```{eval-rst}", f".. include:: sent{n}.rst", "   :literal:", "```"]
            elif k == "rst_raw_file":
                files[f"sent{n}.html"] = f"<p>{vf}</p>\n"
                body = ["```{eval-rst}", ".. raw:: html", f"   :file: sent{n}.html", "```"]
            elif k == "rst_csv_file":
                files[f"sent{n}.csv"] = f"{vf}, b\n"
                body = ["```{eval-rst}", ".. csv-table::", f"   :file: sent{n}.csv", "```"]
            else:
                raise ValueError(k)
            b = marker()
            lines = pre + body + ["", b]
        for w in reversed(it.get("wrap", [])):
            lines = wrap(lines, w, n)
        if "foot" in it.get("wrap", []):
            lines = [f"ref [^fn{n}]", ""] + lines
        blocks.append(lines)
    fm = []
    if subs:
        fm = ["---", "myst:", "  substitutions:"] + [f"    {k}: '{v}'" for k, v in subs.items()] + ["---", ""]
    text = "\n".join(fm) + ("\n" if fm else "") + "\n\n".join("\n".join(b) for b in blocks) + "\n"
    for name, content in files.items():
        with open(os.path.join(tmpdir, name), "w") as fh:
            fh.write(content)
    return text, markers, files


def marker_paths(doc, markers):
    """marker -> list of ancestor-chain strings where a Text node contains the marker."""
    from docutils import nodes

    found = {m: [] for m in markers}
    rx = re.compile(r"Mk\d+x")
    for t in doc.findall(nodes.Text):
        for m in rx.findall(str(t)):
            if m in found:
                chain = []
                p = t.parent
                while p is not None:
                    if not isinstance(p, (nodes.system_message, nodes.problematic)):
                        chain.append(p.tagname)
                    else:
                        chain.append("!msg")
                    p = p.parent
                found[m].append("/".join(reversed(chain)))
    return found


def run_one(text, src, R, F, suppress=None, as_int=False):
    from docutils import nodes

    settings = {"raw_enabled": R, "file_insertion_enabled": F, "myst_enable_extensions": EXTS,
                "myst_footnote_sort": False}
    if as_int:
        # docutils' own defaults for the two switches are the integers 1 / 0 (its option parser stores those)
        settings["raw_enabled"], settings["file_insertion_enabled"] = int(R), int(F)
    if suppress:
        # the security switches are docutils', not MyST warnings: silencing MyST's warnings switches nothing back on
        settings["myst_suppress_warnings"] = list(suppress)
    _OPENED.clear()
    doc, warn = front.docutils_publish(text, source_path=src, settings=settings)
    opened_tree = list(_OPENED)
    _OPENED.clear()
    html, _w2 = front.docutils_html(text, source_path=src, settings=settings)
    opened = opened_tree + list(_OPENED)
    raws = [n.astext()[:60] for n in doc.findall(nodes.raw)]
    return doc, warn, html, raws, opened


def check_case(acc, case, pc=None) -> list[dict]:
    mk = (acc or Acc(PROPERTY, "replay")).violation
    _install_hook()
    tmp = tempfile.mkdtemp(prefix="verif-c20-")
    vs = []
    try:
        text, markers, files = build(case, tmp)
        src = os.path.join(tmp, "main.md")
        _WATCH["dir"] = tmp
        results = {}
        for R in (True, False):
            for F in (True, False):
                try:
                    results[(R, F)] = run_one(text, src, R, F, case.get("suppress"), bool(case.get("as_int")))
                except Exception as exc:  # noqa: BLE001
                    vs.append(mk(f"C20:render-raises:{type(exc).__name__}", case, "document",
                                 f"raw_enabled={R} file_insertion_enabled={F}: {type(exc).__name__}: {exc}"))
                    return vs
    finally:
        _WATCH["dir"] = None
        shutil.rmtree(tmp, ignore_errors=True)

    items = case["items"]
    raw_items = [it for it in items if it["kind"] in RAW_BLOCK + RAW_INLINE or it["kind"] == "inc_rawhtml"]
    file_items = [it for it in items if it["kind"] in FILE_KINDS]
    base_paths = None
    # which constructs were actually realised in this document (positive control, both switches on)?  A construct that
    # the surrounding Markdown turned into something else (e.g. a hard break that became a lazy continuation line)
    # cannot be "refused", so no warning is owed for it.
    html_on = results[(True, True)][2]
    realised = {}
    for it in items:
        k, n = it["kind"], it["n"]
        if k == "strike":
            realised[n] = "<s>" in html_on
        elif k == "hardbreak":
            realised[n] = "<br />" in html_on
        elif k == "inc_missing":
            realised[n] = f"nosuch-file-{n}.md" in results[(True, True)][1]     # (with both switches on: reported as not found)
        elif k in FILE_KINDS and k != "inc_rawhtml":
            realised[n] = f"VFILE{n}Z" in html_on
        else:
            realised[n] = f"<vs-{n}" in html_on
    for (R, F), (doc, warn, html, raws, opened) in results.items():
        tag = f"raw_enabled={R} file_insertion_enabled={F}"
        doc_text = doc.astext()
        if not R:
            if raws:
                vs.append(mk("C20:raw-node-survives", case, "no raw nodes", {"settings": tag, "raw": raws[:4]}))
            leaked = sorted(set(re.findall(r"<vs-\d+", html)))
            if leaked:
                vs.append(mk("C20:raw-markup-in-output", case, "no '<vs-N' opener in html output",
                             {"settings": tag, "leaked": leaked}))
            if re.search(r"<s>|<br />", html) and any(it["kind"] in ("strike", "hardbreak") for it in items):
                # <br /> may legitimately come from docutils' own line-block rendering; only strike/hardbreak generated here
                got = sorted(set(re.findall(r"<s>|<br />", html)))
                vs.append(mk("C20:raw-markup-in-output", case, "no <s> / <br /> from strikethrough / hard break",
                             {"settings": tag, "leaked": got}))
        if not F:
            leak_tree = sorted(set(re.findall(r"VFILE\d+Z", doc_text)))
            leak_html = sorted(set(re.findall(r"VFILE\d+Z", html)))
            if leak_tree or leak_html:
                vs.append(mk("C20:file-content-inserted", case, "no sentinel file content",
                             {"settings": tag, "tree": leak_tree, "html": leak_html}))
            if opened:
                vs.append(mk("C20:file-opened", case, "no open() of a sentinel file", {"settings": tag, "opened": sorted(set(opened))}))
        # refusals are reported
        refused = 0
        for it in items:
            k = it["kind"]
            is_raw = k in RAW_BLOCK + RAW_INLINE
            is_file = k in FILE_KINDS
            if realised.get(it["n"]) and ((is_raw and not R) or (is_file and not F) or (k in NEEDS_RAW_TOO and not R)):
                refused += 1
        wl = [w for w in front.warning_lines(warn) if re.search(r"disabled|deactivated", w)]
        if len(wl) < refused:
            vs.append(mk("C20:refusal-not-reported", case, f">= {refused} 'disabled' warnings",
                         {"settings": tag, "warnings": wl[:6]}))
        # the rest of the document is processed normally
        paths = marker_paths(doc, markers)
        bad = {m: p for m, p in paths.items() if len(p) != 1}
        if bad:
            vs.append(mk("C20:marker-lost-or-duplicated", case, "every marker exactly once",
                         {"settings": tag, "bad": {m: len(p) for m, p in list(bad.items())[:4]}}))
        else:
            order = re.findall(r"Mk\d+x", doc_text)
            order = [m for m in order if m in paths]
            if order != markers:
                vs.append(mk("C20:marker-order", case, markers, {"settings": tag, "order": order}))
            flat = {m: p[0] for m, p in paths.items()}
            if base_paths is None:
                base_paths = (tag, flat)
            elif flat != base_paths[1]:
                diff = {m: (base_paths[1][m], flat[m]) for m in flat if flat[m] != base_paths[1].get(m)}
                vs.append(mk("C20:rest-of-document-changed", case, f"same ancestor chain of every marker as under {base_paths[0]}",
                             {"settings": tag, "diff": dict(list(diff.items())[:3])}))
        # positive control
        if R and F and pc is not None:
            for it in items:
                k, n = it["kind"], it["n"]
                if k in ("strike", "hardbreak"):
                    ok = ("<s>" in html) if k == "strike" else ("<br />" in html)
                elif k == "inc_missing":
                    ok = f"nosuch-file-{n}.md" in warn
                elif k in FILE_KINDS and k != "inc_rawhtml":
                    ok = f"VFILE{n}Z" in html
                elif k == "inc_rawhtml":
                    ok = f"VFILE{n}Z" in html and f"<vs-{n}" in html
                else:
                    ok = f"<vs-{n}" in html
                pc.setdefault(k, [0, 0])[0 if ok else 1] += 1
    if acc is not None:
        kinds = {it["kind"] for it in items}
        nested = any(it.get("wrap") for it in items)
        acc.case(case, len(kinds) >= 2 and nested,
                 [f"kind:{k}" for k in sorted(kinds)] + [f"depth:{max((len(it.get('wrap', [])) for it in items), default=0)}"]
                 + [f"wrap:{w}" for it in items for w in it.get("wrap", [])],
                 sample={"items": [(it["kind"], it.get("ctx"), it.get("wrap")) for it in items]})
    out, seen = [], set()
    for v in vs:
        if v["signature"] not in seen:
            seen.add(v["signature"])
            out.append(v)
    return out


# --------------------------------------------------------------------------- strategies


@st.composite
def case_st(draw):
    n_items = draw(st.integers(1, 6))
    items = []
    for i in range(n_items):
        group = draw(st.sampled_from(["rb", "ri", "f", "f"]))
        if group == "rb":
            it = {"kind": draw(st.sampled_from(RAW_BLOCK))}
        elif group == "ri":
            it = {"kind": draw(st.sampled_from(RAW_INLINE)), "ctx": draw(st.sampled_from(INLINE_CTX))}
        else:
            it = {"kind": draw(st.sampled_from(FILE_KINDS))}
        it["n"] = i + 1
        it["wrap"] = draw(st.lists(st.sampled_from(WRAPS), max_size=3))
        # a footnote definition must be at top level of its container chain start
        if "foot" in it["wrap"]:
            it["wrap"] = ["foot"] + [w for w in it["wrap"] if w != "foot"]
        items.append(it)
    case = {"items": items}
    sup = draw(st.sampled_from([None, None, ["myst"], ["myst.*"], ["myst.raw", "myst.strikethrough"], ["docutils", "ref"]]))
    if sup:
        case["suppress"] = sup
    if draw(st.integers(0, 2)) == 0:
        case["as_int"] = True
    return case


def _pc_check(pc):
    for k, (ok, miss) in pc.items():
        if ok == 0 and miss >= 5:
            raise HarnessError(f"positive control never succeeded for construct kind {k!r}: generator syntax is wrong")


def sub_random(acc, shard, nshards, tier, seed):
    n = 100 if tier == "quick" else 4000
    pc: dict = {}
    hyp_run(acc, case_st(), lambda c: check_case(acc, c, pc), max_examples=n,
            seed=shard_seed(seed, shard, 20), is_known=known().matches)
    _pc_check(pc)
    acc.extra["positive_control"] = [{k: {"present": v[0], "absent": v[1]} for k, v in sorted(pc.items())}]


def sub_each(acc, shard, nshards, tier, seed):
    """Every construct kind x every single wrapper (and none), exhaustively."""
    kn = known()
    pc: dict = {}
    i = 0
    combos = []
    for k in RAW_BLOCK + FILE_KINDS:
        for w in [None] + WRAPS:
            combos.append(({"kind": k}, w))
    for k in RAW_INLINE:
        for ctx in INLINE_CTX:
            for w in [None] + WRAPS:
                combos.append(({"kind": k, "ctx": ctx}, w))
    if tier == "thorough":
        more = []
        for k in RAW_BLOCK + FILE_KINDS:
            for w1 in WRAPS:
                for w2 in WRAPS:
                    if w2 == "foot":
                        continue
                    more.append(({"kind": k}, [w1, w2]))
        combos.extend(more)
    for base, w in combos:
        i += 1
        if i % nshards != shard:
            continue
        it = dict(base)
        it["n"] = 1
        it["wrap"] = [] if w is None else (w if isinstance(w, list) else [w])
        case = {"items": [it, {"kind": "html_inline", "ctx": "para", "n": 2, "wrap": []}]}
        for v in check_case(acc, case, pc):
            if kn.matches(v):
                acc.known_hits[v["signature"]] += 1
            elif len(acc.violations) < 8 and all(v["signature"] != x["signature"] for x in acc.violations):
                acc.violations.append(v)
    acc.extra["positive_control_each"] = [{k: {"present": v[0], "absent": v[1]} for k, v in sorted(pc.items())}]


def plan(tier):
    return [Sub("each", sub_each, 16), Sub("random", sub_random, 16)]


def replay(sub, input):
    return check_case(None, input)
