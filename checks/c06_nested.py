"""C06 - nested parsing is transparent: directive bodies, fences, include, substitution."""

from __future__ import annotations

import copy
import os
import re
import shutil
import tempfile

from hypothesis import strategies as st

from vlib import front, mdgen
from vlib.core import Acc, Sub, hyp_run, shard_seed
from vlib.findings import Known

PROPERTY = "C06"
RULE = (
    "X = Hypothesis block sequence from the document grammar without headings and thematic breaks (paragraphs with "
    "inline markup, lists, quotes, fenced / indented code, HTML, tables, math, definition / field lists, targets, "
    "comments, divs, nested admonitions and other content directives, roles, footnote definitions and references, "
    "reference links with their definitions, substitutions, eval-rst), optionally with a footnote definition and a "
    "'(target)=' that the text *after* the wrapper uses. W = 1-4 nested admonition-type directives (10 names, backtick "
    "or colon fence one longer than any inner fence, with / without an option block of either style, 0-2 blank lines "
    "before the body), or an include of a file containing X, or a block substitution whose value is X, each "
    "optionally inside further directives; plus (fences) every combination of fence character x option block x blank "
    "line per layer to depth 3 (thorough: 4) around six small bodies whose first line is itself a fence, div or field "
    "list. Oracle (metamorphic, no model of the renderer): (pre-transform) the "
    "children of the innermost wrapper node in parse(before + W(X) + after) equal the nodes between 'before' and "
    "'after' in parse(before + X + after), compared as pformat() with line / source masked; (post-transform) the "
    "published tree of the wrapped document with every wrapper node replaced by its children equals the published "
    "tree of the in-place document - which includes the resolution of the outer footnote reference and '#target' "
    "link. Non-trivial: X has >= 2 block kinds and W has depth >= 2 or is include / substitution; distinct by case."
)
RULE += (' A link reference definition made inside X is also used by a later directive body (a later nested parse), which must resolve in both spellings.')
RULE += (' (edges) eleven block kinds (indented code first among them) as the first / last / only block of X through every way '
         'of nesting (directive, include, sliced include, substitution; used once or twice; inside 0-2 directives).')
ASSUMPTIONS = [
    "headings are excluded as the statement says; thematic breaks are excluded (docutils has no legal place for a "
    "transition inside an admonition: recorded under C01)",
    "directives with document-level or position-dependent semantics (contents, sectnum, header / footer, title, meta, "
    "class, role, default-role, target-notes, topic, sidebar, replace, unicode, date) are not generated inside X",
    "for the substitution wrapper X avoids Jinja delimiters ('{{', '{%', '{#')",
]
FLOOR = {"quick": 300, "thorough": 6000}

BAD_DIRECTIVES = {"contents", "sectnum", "header", "footer", "title", "meta", "class", "role", "default-role", "target-notes",
                  "topic", "sidebar", "replace", "unicode", "date", "rubric"}
X_FEATURES = (mdgen.FULL - {"heading", "hr", "blockbreak"})
X_FEATURES_SUBST = X_FEATURES - {"attrs", "subst", "math", "amsmath", "math_inline", "directive", "eval_rst", "role", "comment"}
WRAP_NAMES = ["note", "warning", "tip", "important", "admonition", "attention", "hint", "caution", "danger", "error"]
SUBS = {"key1": "value *1*", "key2": 3, "blockkey": "- a\n- b", "cyc": "{{ cyc }}"}

_known = None


def known() -> Known:
    global _known
    if _known is None:
        _known = Known(PROPERTY)
    return _known


def clean_blocks(blocks):
    for b in mdgen.walk_blocks(blocks):
        if b["t"] in ("fieldlist", "deflist"):
            # the serializer only indents continuation lines by two columns, which is right for a body that starts
            # with a paragraph; keep X self-contained (e.g. a fence in first position would not be closed)
            for _k, body in b["items"]:
                if body and body[0]["t"] != "para":
                    body.insert(0, {"t": "para", "inl": [{"t": "text", "s": "lead"}]})
        if b["t"] == "directive" and b["name"] in BAD_DIRECTIVES:
            b["name"] = "parsed-literal"
        if b["t"] == "eval_rst" and ("=====" in b["text"] or ".. _" in b["text"]):
            b["text"] = "A *rst* paragraph."
    return blocks


def mask(s: str) -> str:
    s = re.sub(r' line="\d+"', "", s)
    s = re.sub(r' source="[^"]*"', "", s)
    return s


def build(case, tmp):
    """-> (wrapped_text, inplace_text, settings_wrapped, settings_inplace, n_dir_layers_outer, kind)"""
    x_blocks = copy.deepcopy(case["x"])
    extra = []
    after = "Outer after."
    after_nested = ""
    if case.get("outer_use"):
        extra = [{"t": "footdef", "label": "fx", "ch": [{"t": "para", "inl": [{"t": "text", "s": "footnote body fx"}]}]},
                 {"t": "target", "name": "tgx"}, {"t": "para", "inl": [{"t": "text", "s": "target paragraph"}]}]
        after = "Outer after [^fx] and [](#tgx) and [t](#tgx)."
        # a link reference definition made inside X is used by a *later nested parse* (the body of a directive that
        # follows): nested parses share one environment, so this resolves whether X was written in place or wrapped.
        # (Its use by the *main* parse is the recorded finding 'outer_refdef' below.)
        extra = extra + [{"t": "refdef", "label": "nrx", "dest": "https://e.org/nrx"}]
        after_nested = "\n\n```{note}\nNested after [link text][nrx] and [nrx] and [^fx].\n```"
    if case.get("outer_refdef"):
        # known-finding class, never drawn by the generators (only replayed from known/)
        extra = extra + [{"t": "refdef", "label": "rx", "dest": "https://e.org/rx"}]
        after = after.rstrip(".") + " and [link text][rx]."
    x_blocks = x_blocks + extra
    x_text = mdgen.render(copy.deepcopy(x_blocks)).rstrip("\n")
    inner = case["inner"]  # "dir" | "include" | "subst"
    settings = {"myst_enable_extensions": mdgen.ALL_EXTENSIONS, "myst_substitutions": dict(SUBS)}
    settings_w = dict(settings)
    x_inplace = x_text
    if inner == "include":
        sliced = bool(case.get("slice"))
        with open(os.path.join(tmp, "xfile.md"), "w") as fh:
            if sliced:
                # X is the part of the file between two occurrences of one marker text (the end text is looked for
                # *after* the start text)
                # (the end marker directly follows X's last line, so that the selected text ends like the plain file does:
                # an unclosed fence at the end of X would otherwise take in a different number of trailing blank lines)
                fh.write("skipped head\n\nMARKX\n\n" + x_text + "\nMARKX\n\nskipped tail\n")
            else:
                fh.write(x_text + "\n")
        inc_block = {"t": "directive", "name": "include", "arg": "xfile.md", "raw": "",
                     "opts": [("start-after", "MARKX"), ("end-before", "MARKX")] if sliced else [], "optstyle": "colon",
                     "fence": "`", "len": 3, "blank": 0, "ch": None}
        core_blocks = [inc_block]
        if case.get("twice"):
            # the same file included a second time, later in the same document == its text written twice
            core_blocks = [inc_block, {"t": "para", "inl": [{"t": "text", "s": "Between the two."}]}, copy.deepcopy(inc_block)]
            x_inplace = x_text + "\n\nBetween the two.\n\n" + x_text
    elif inner == "subst":
        settings_w["myst_substitutions"] = dict(SUBS, xval=x_text)
        core_blocks = [{"t": "subst_block", "key": "xval"}]
        if case.get("twice"):
            # the same substitution used a second time == its value written twice
            core_blocks = [{"t": "subst_block", "key": "xval"}, {"t": "para", "inl": [{"t": "text", "s": "Between the two."}]},
                           {"t": "subst_block", "key": "xval"}]
            x_inplace = x_text + "\n\nBetween the two.\n\n" + x_text
    else:
        core_blocks = x_blocks
        if case.get("twice"):
            core_blocks = x_blocks + [{"t": "para", "inl": [{"t": "text", "s": "Between the two."}]}] + copy.deepcopy(x_blocks)
            x_inplace = x_text + "\n\nBetween the two.\n\n" + x_text
    blocks = core_blocks
    for layer in case["layers"]:
        blocks = [{"t": "directive", "name": layer["name"], "arg": "Wrap Title" if layer["name"] == "admonition" else "",
                   "raw": None, "opts": [("class", "wrapcls")] if layer["opts"] else [], "optstyle": layer["optstyle"],
                   "blank": layer["blank"], "fence": layer["fence"], "len": None, "ch": blocks}]
    after = after + after_nested
    w_text = "Outer before.\n\n" + mdgen.render(copy.deepcopy(blocks)).rstrip("\n") + "\n\n" + after + "\n"
    i_text = "Outer before.\n\n" + x_inplace + "\n\n" + after + "\n"
    return w_text, i_text, settings_w, settings, len(case["layers"])


def case_x_text(case):
    """The text of X (with the outer-use extras) exactly as build() writes it in place."""
    tmp = tempfile.mkdtemp(prefix="verif-c06x-")
    try:
        _w, i_text, _sw, _si, _n = build({**case, "inner": "dir", "layers": []}, tmp)
    finally:
        shutil.rmtree(tmp, ignore_errors=True)
    body = i_text[len("Outer before.\n\n"):]
    return body[:body.rindex("\n\nOuter after")] + "\n"


def between(doc):
    """Top-level children strictly between the 'Outer before.' and 'Outer after' paragraphs."""
    from docutils import nodes

    ch = list(doc.children)
    lo = next((i for i, c in enumerate(ch) if isinstance(c, nodes.paragraph) and c.astext() == "Outer before."), None)
    hi = next((i for i, c in enumerate(ch) if isinstance(c, nodes.paragraph) and c.astext().startswith("Outer after")), None)
    if lo is None or hi is None or hi < lo:
        return None
    return ch[lo + 1:hi]


def unwrap(nodes_list, n_layers):
    """Descend n_layers directive wrappers: each must be the only node (besides a title)."""
    from docutils import nodes

    cur = nodes_list
    for _ in range(n_layers):
        if len(cur) != 1 or not isinstance(cur[0], nodes.Admonition):
            return None
        cur = [c for c in cur[0].children if not isinstance(c, nodes.title)]
    return cur


def splice(doc, n_layers):
    """Replace the wrapper node after 'Outer before.' by its children, n_layers times (post-transform tree)."""
    from docutils import nodes

    for _ in range(n_layers):
        ch = list(doc.children)
        lo = next((i for i, c in enumerate(ch) if isinstance(c, nodes.paragraph) and c.astext() == "Outer before."), None)
        if lo is None or lo + 1 >= len(ch) or not isinstance(ch[lo + 1], nodes.Admonition):
            return False
        w = ch[lo + 1]
        inner = [c for c in w.children if not isinstance(c, nodes.title)]
        for c in inner:
            w.remove(c)
        idx = doc.index(w)
        doc.remove(w)
        for k, c in enumerate(inner):
            doc.insert(idx + k, c)
    return True


def pf(nodes_list):
    return mask("".join(n.pformat() for n in nodes_list))


_PROC_DIR = {}


def _process_dir() -> str:
    """One directory per worker process, reused for every case: the included file keeps its *path* while its content
    changes from case to case, as a file does that is edited between two builds in one process."""
    pid = os.getpid()
    if pid not in _PROC_DIR:
        from multiprocessing import util

        d = tempfile.mkdtemp(prefix="verif-c06p-")
        _PROC_DIR.clear()
        _PROC_DIR[pid] = d
        util.Finalize(None, shutil.rmtree, args=(d, True), exitpriority=1)
        import atexit

        atexit.register(shutil.rmtree, d, True)
    return _PROC_DIR[pid]


def check_case(acc, case) -> list[dict]:
    mk = (acc or Acc(PROPERTY, "replay")).violation
    tmp = _process_dir()
    vs = []
    try:
        w_text, i_text, st_w, st_i, n_layers = build(case, tmp)
        src = os.path.join(tmp, "main.md")
        info = {"wrapped": w_text, "inplace": i_text}
        try:
            dw, _ = front.docutils_parse(w_text, source_path=src, settings=st_w)
            di, _ = front.docutils_parse(i_text, source_path=src, settings=st_i)
            pw, ww = front.docutils_publish(w_text, source_path=src, settings=st_w)
            pi, wi = front.docutils_publish(i_text, source_path=src, settings=st_i)
        except Exception as exc:  # noqa: BLE001
            return [mk(f"C06:render-raises:{type(exc).__name__}", case, "documents", f"{type(exc).__name__}: {exc}\n{w_text}")]
    finally:
        for name in os.listdir(tmp):
            os.unlink(os.path.join(tmp, name))
    # pre-transform
    got = between(dw)
    exp = between(di)
    if exp is not None:
        # X must also render the same on its own as when other text follows it (an unclosed fence inside a container, for
        # example, takes in the following blank line): otherwise "the same Markdown in place" is not one well-defined thing
        try:
            x_alone, _ = front.docutils_parse(case_x_text(case), source_path=src, settings=st_i)
            if pf(list(x_alone.children)) != pf(exp):
                exp = None
        except Exception:  # noqa: BLE001
            exp = None
    if exp is None:
        # X is not self-contained (e.g. an unclosed construct swallows the text after it): outside the domain
        if acc is not None:
            acc.excluded["x-not-self-contained"] += 1
        return []
    if got is None or exp is None:
        vs.append(mk("C06:outer-paragraphs-lost", case, "'Outer before.' ... 'Outer after' at top level",
                     {"wrapped": got is not None, "inplace": exp is not None, **info}))
    else:
        inner = unwrap(got, n_layers)
        if inner is None:
            vs.append(mk("C06:wrapper-structure", case, f"{n_layers} nested admonition nodes", pf(got)[:600] + "\n" + w_text))
        elif pf(inner) != pf(exp):
            a, b = pf(exp), pf(inner)
            k = next((i for i in range(min(len(a), len(b))) if a[i] != b[i]), min(len(a), len(b)))
            vs.append(mk(f"C06:nested-nodes-differ:{case['inner']}", case, a[max(0, k - 200):k + 300], b[max(0, k - 200):k + 300],
                         detail=w_text))
    # post-transform
    if splice(pw, n_layers):
        a, b = mask(pi.pformat()), mask(pw.pformat())
        if a != b:
            k = next((i for i in range(min(len(a), len(b))) if a[i] != b[i]), min(len(a), len(b)))
            vs.append(mk("C06:outer-use-of-inner-reference-definition" if case.get("outer_refdef")
                         else f"C06:published-tree-differs:{case['inner']}", case, a[max(0, k - 200):k + 300], b[max(0, k - 200):k + 300],
                         detail=w_text))
    elif not vs:
        vs.append(mk("C06:wrapper-structure-after-transforms", case, f"{n_layers} nested admonition nodes", mask(pw.pformat())[:600]))
    if acc is not None:
        kinds = mdgen.kinds(case["x"])
        nt = len(kinds) >= 2 and (n_layers >= 2 or case["inner"] != "dir")
        acc.case(case, nt, [f"inner:{case['inner']}", f"layers:{n_layers}"] + (["outer-use"] if case.get("outer_use") else [])
                 + [f"xkind:{k}" for k in sorted(kinds)], sample={"wrapped": w_text})
    out, seen = [], set()
    for v in vs:
        if v["signature"] not in seen:
            seen.add(v["signature"])
            out.append(v)
    return out


# --------------------------------------------------------------------------- strategies

layer_st = st.builds(lambda n, f, o, s, b: {"name": n, "fence": f, "opts": o, "optstyle": s, "blank": b},
                     st.sampled_from(WRAP_NAMES), st.sampled_from(["`", ":"]), st.booleans(),
                     st.sampled_from(["colon", "dash"]), st.integers(0, 2))


@st.composite
def case_st(draw, inner=None):
    inner = inner or draw(st.sampled_from(["dir", "dir", "dir", "include", "subst"]))
    feats = X_FEATURES_SUBST if inner == "subst" else X_FEATURES
    x = clean_blocks(draw(mdgen.blocks_st(feats, wild=draw(st.booleans()) and inner != "subst", max_blocks=4, headings=False)))
    if inner == "dir":
        layers = draw(st.lists(layer_st, min_size=1, max_size=4))
    else:
        layers = draw(st.lists(layer_st, min_size=0, max_size=2))
    case = {"x": x, "inner": inner, "layers": layers, "outer_use": draw(st.booleans())}
    # (not for X that defines link references: whether a definition made in a nested parse is visible to text parsed
    # earlier is the recorded finding about definition order, and the second copy would see the first copy's definitions)
    if inner == "include" and draw(st.integers(0, 3)) == 0:
        case["slice"] = True
    if inner in ("include", "subst") and draw(st.integers(0, 2)) == 0 and not any(b["t"] == "refdef" for b in mdgen.walk_blocks(x)):
        case["twice"] = True
        case["outer_use"] = False     # (the extra definitions would be duplicates of themselves)
    return case


def sub_dir(acc, shard, nshards, tier, seed):
    n = 120 if tier == "quick" else 3500
    hyp_run(acc, case_st(inner="dir"), lambda c: check_case(acc, c), max_examples=n,
            seed=shard_seed(seed, shard, 6), is_known=known().matches)


def sub_include(acc, shard, nshards, tier, seed):
    n = 80 if tier == "quick" else 2500
    hyp_run(acc, case_st(inner="include"), lambda c: check_case(acc, c), max_examples=n,
            seed=shard_seed(seed, shard, 7), is_known=known().matches)


def sub_subst(acc, shard, nshards, tier, seed):
    n = 80 if tier == "quick" else 2500
    hyp_run(acc, case_st(inner="subst"), lambda c: check_case(acc, c), max_examples=n,
            seed=shard_seed(seed, shard, 8), is_known=known().matches)


def _para(s):
    return {"t": "para", "inl": [{"t": "text", "s": s}]}


X_VARIANTS = {
    "para": [_para("alpha"), _para("beta")],
    "div-first": [{"t": "div", "name": "cls", "ch": [_para("alpha")], "len": 3}, _para("beta")],
    "colon-directive-first": [{"t": "directive", "name": "tip", "arg": "", "raw": None, "opts": [], "optstyle": "colon", "blank": 0,
                               "fence": ":", "len": None, "ch": [_para("alpha")]}, _para("beta")],
    "code-first": [{"t": "code", "fence": "`", "len": 3, "lang": "python", "text": "x = 1"}, _para("beta")],
    "fieldlist-first": [{"t": "fieldlist", "items": [["field", [_para("alpha")]]]}, _para("beta")],
    "quote-list": [{"t": "quote", "ch": [{"t": "ul", "marker": "-", "tight": True, "items": [[_para("alpha")], [_para("beta")]]}]}],
}


def sub_fences(acc, shard, nshards, tier, seed):
    """Every combination of fence character x option block x blank line per layer, to depth 3 (thorough: 4), around small
    bodies whose first line is itself a fence / div / field list (the shapes where the fence and option syntaxes meet)."""
    import itertools

    kn = known()
    per_layer = [(f, o, b) for f in "`:" for o in (False, True) for b in (0, 1)]
    i = 0
    maxdepth = 3 if tier == "quick" else 4
    for depth in range(1, maxdepth + 1):
        choices = per_layer if depth <= 3 else [(f, False, b) for f in "`:" for b in (0, 1)]
        for combo in itertools.product(choices, repeat=depth):
            for xname, x in X_VARIANTS.items():
                i += 1
                if i % nshards != shard:
                    continue
                layers = [{"name": "note" if k % 2 == 0 else "admonition", "fence": f, "opts": o, "optstyle": "colon" if k % 2 else "dash",
                           "blank": b} for k, (f, o, b) in enumerate(combo)]
                case = {"x": copy.deepcopy(x), "inner": "dir", "layers": layers, "outer_use": depth == 2}
                for v in check_case(acc, case):
                    if kn.matches(v):
                        acc.known_hits[v["signature"]] += 1
                    elif len(acc.violations) < 8 and all(v["signature"] != w["signature"] for w in acc.violations):
                        acc.violations.append(v)
    acc.exhaustive = True
    acc.extra["fence_layout_depth"] = maxdepth


def _txt(s):
    return [{"t": "text", "s": s}]


EDGE_BLOCKS = {
    "icode": {"t": "icode", "text": "x = 1\ny = 2"},
    "code": {"t": "code", "fence": "~", "len": 3, "lang": "", "text": "  indented\n"},
    "html": {"t": "html", "text": "<div>\nhtml *text*\n</div>"},
    "table": {"t": "table", "align": ["", ":-"], "head": [_txt("h1"), _txt("h2")], "rows": [[_txt("a"), _txt("b")]]},
    "quote": {"t": "quote", "ch": [_para("quoted")]},
    "ul": {"t": "ul", "marker": "-", "tight": True, "items": [[_para("one")], [_para("two")]]},
    "ol": {"t": "ol", "start": 7, "delim": ")", "tight": False, "items": [[_para("one")], [_para("two")]]},
    "fieldlist": {"t": "fieldlist", "items": [["field", [_para("alpha")]]]},
    "div": {"t": "div", "name": "cls", "ch": [_para("alpha")], "len": 3},
    "target": {"t": "target", "name": "t2"},
    "refdef": {"t": "refdef", "label": "ref1", "dest": "https://e.org/r"},
}


def sub_edges(acc, shard, nshards, tier, seed):
    """Every block kind as the first / last / only block of X, through every way of nesting (one directive layer,
    include, sliced include, substitution, each also used twice and inside a directive): the edges of the inserted
    text are where a wrapper that trims, re-indents or re-joins it shows."""
    kn = known()
    i = 0
    layer = {"name": "note", "fence": "`", "opts": False, "optstyle": "colon", "blank": 0}
    modes = [("dir", {}), ("include", {}), ("include", {"slice": True}), ("include", {"twice": True}),
             ("subst", {}), ("subst", {"twice": True})]
    for bname, blk in EDGE_BLOCKS.items():
        for pos in ("first", "last", "only"):
            x = {"first": [blk, _para("beta")], "last": [_para("alpha"), blk], "only": [blk]}[pos]
            for inner, extra in modes:
                if extra.get("twice") and bname in ("refdef", "target"):
                    continue      # (a second copy would define the same name twice)
                for nl in ((1, 2) if inner == "dir" else (0, 1)):
                    i += 1
                    if i % nshards != shard:
                        continue
                    case = {"x": copy.deepcopy(x), "inner": inner, "layers": [dict(layer) for _ in range(nl)],
                            "outer_use": False, **extra}
                    for v in check_case(acc, case):
                        if kn.matches(v):
                            acc.known_hits[v["signature"]] += 1
                        elif len(acc.violations) < 8 and all(v["signature"] != w["signature"] for w in acc.violations):
                            acc.violations.append(v)


def plan(tier):
    return [Sub("fences", sub_fences, 16), Sub("dir", sub_dir, 8), Sub("include", sub_include, 4), Sub("subst", sub_subst, 4),
            Sub("edges", sub_edges, 4)]


def replay(sub, input):
    return check_case(None, input)
