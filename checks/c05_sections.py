"""C05 - heading levels determine section nesting; nested headings never make sections."""

from __future__ import annotations

import itertools
import os
import re
import shutil
import tempfile

from hypothesis import strategies as st

from vlib import front
from vlib.core import Acc, Sub, hyp_run, shard_seed
from vlib.findings import Known

PROPERTY = "C05"
RULE = (
    "(enum) every sequence of heading levels 1-6 up to length 5 (quick: 9 331 sequences) / 6 (thorough: 55 986 sequences), each "
    "heading followed by a marker paragraph; (random) Hypothesis sequences up to length 40 interleaved with filler "
    "blocks (paragraph, list, code, quote, table, thematic break), headings nested in block quotes / list items / "
    "admonition bodies (backtick and colon fences) at random positions, and include directives with "
    "heading-offset 0-3 whose file contains further headings. Oracle: stack-machine reference model (for level L "
    "pop while top.level >= L; parent = top or document; one myst.header warning iff L > parent.level + 1); "
    "observed parent of every section (by marker title), parent section of every marker paragraph, the "
    "myst.header warnings with their lines; nested headings must be rubrics with level L and the section tree must "
    "equal that of the same document with the nested headings deleted. Non-trivial: the sequence has a decrease "
    "followed by an increase, or a skip, or a nested heading; distinct by case."
)
ASSUMPTIONS = [
    "doctitle_xform / sectsubtitle_xform are off (the observation point named by the property)",
    "directive bodies use admonition-type directives (nested_parse without match_titles); directives that "
    "explicitly request section parsing (match_titles=True, e.g. Sphinx 'only') are not generated",
]
FLOOR = {"quick": 500, "thorough": 10000}

# content directives whose body is parsed as nested Markdown (argument where one is required)
DIRECTIVE_WRAPS = {"topic": "Title", "sidebar": "Title", "container": "cls", "epigraph": "", "highlights": "",
                   "pull-quote": "", "compound": "", "warning": "", "tip": "", "important": "",
                   "class": "cls"}
ALL_WRAPS = ["quote", "list", "note", "colon", "deep", "div", "dd", "field", "foot", "olist", "figure", "note-in-note",
             "list-in-note"] + sorted(DIRECTIVE_WRAPS)

_known = None


def known() -> Known:
    global _known
    if _known is None:
        _known = Known(PROPERTY)
    return _known


def model(levels):
    """[(parent_index | -1, warn: bool)] for each heading level, in order."""
    stack = []  # (level, index)
    out = []
    for i, L in enumerate(levels):
        while stack and stack[-1][0] >= L:
            stack.pop()
        plevel, pidx = stack[-1] if stack else (0, -1)
        out.append((pidx, L > plevel + 1))
        stack.append((L, i))
    return out


FILLERS = {
    "para": "Filler paragraph.",
    "list": "- item one\n- item two",
    "code": "```python\nx = 1\n```",
    "quote": "> quoted text",
    "table": "| a | b |\n|---|---|\n| 1 | 2 |",
    "hr": "***",
    "olist": "1. one\n2. two",
}


def build(case, tmpdir=None):
    """case['items']: list of items:
    {"t": "h", "level": L}                    top-level heading (marker H<i>)
    {"t": "fill", "kind": k}                  filler block
    {"t": "nested", "level": L, "wrap": w}    heading inside a container (marker N<j>)
    {"t": "include", "offset": o, "levels": [...]}  include of a file with headings (markers H<i>)
    Returns (text, top_levels, lines_of_headings, nested_specs)
    """
    out = []
    levels = []      # effective level of every section-making heading, in order
    hlines = []      # 1-based line of each (in the main file or None when in an include)
    nested = []      # (marker, level)
    hi = 0
    ni = 0
    inc = 0

    def cur_line():
        return sum(x.count("\n") + 1 for x in out) + len(out) + 1  # blocks are joined by blank lines

    if case.get("fm_title"):
        # a title in the front matter, turned into the document's first H1 (title_to_header): heading H0, no paragraph
        how = case["fm_title"]
        out.append("---\ntitle: H0\n" + ("myst:\n  title_to_header: true\n" if how == "front" else "") + "---")
        levels.append(1)
        hlines.append(None)
        hi = 1

    for it in case["items"]:
        if it["t"] == "h":
            hlines.append(cur_line())
            if it.get("setext") and it["level"] <= 2:
                # the other spelling of a level-1 / level-2 heading: the text underlined with '=' / '-'
                out.append(f"H{hi}\n" + ("===" if it["level"] == 1 else "---") + f"\n\nP{hi}")
            else:
                out.append("#" * it["level"] + f" H{hi}\n\nP{hi}")
            levels.append(it["level"])
            hi += 1
        elif it["t"] == "only":
            # Sphinx' 'only' directive parses its body with section titles allowed: headings in it are document headings
            # of the block only: the section structure around the block is that of the document without it
            body = []
            for L in it["levels"]:
                body.append("#" * L + f" Only{len(nested)}x\n\ninner text\n")
                nested.append((f"Only{len(nested)}x", None))
            out.append("`````{only} html\n" + "\n".join(body) + "`````")
        elif it["t"] == "fill":
            out.append(FILLERS[it["kind"]])
        elif it["t"] == "nested":
            hd = "#" * it["level"] + f" N{ni}"
            w = it["wrap"]
            if w == "quote":
                out.append("> lead\n>\n> " + hd + "\n>\n> tail")
            elif w == "list":
                out.append("- lead\n\n  " + hd + "\n\n  tail")
            elif w == "note":
                out.append("```{note}\nlead\n\n" + hd + "\n\ntail\n```")
            elif w == "colon":
                out.append(":::{admonition} Title\nlead\n\n" + hd + "\n:::")
            elif w == "deep":
                out.append("> - lead\n>\n>   " + hd)
            elif w in DIRECTIVE_WRAPS:
                arg = DIRECTIVE_WRAPS[w]
                out.append("````{" + w + "}" + (" " + arg if arg else "") + "\nlead\n\n" + hd + "\n\ntail\n````")
            elif w == "div":
                out.append("::::cls\nlead\n\n" + hd + "\n::::")
            elif w == "dd":
                out.append("Term\n: lead\n\n  " + hd)
            elif w == "field":
                out.append(":field: lead\n\n  " + hd)
            elif w == "foot":
                out.append(f"ref [^fn{ni}]\n\n[^fn{ni}]: lead\n\n    " + hd)
            elif w == "olist":
                out.append("1. lead\n\n   " + hd + "\n\n   tail")
            elif w == "figure":
                out.append("````{figure} img.png\ncaption\n\n" + hd + "\n\nlegend\n````")
            elif w == "note-in-note":
                out.append("`````{note}\n````{tip}\n" + hd + "\n````\n`````")
            elif w == "list-in-note":
                out.append("````{note}\n- lead\n\n  " + hd + "\n````")
            nested.append((f"N{ni}", it["level"]))
            ni += 1
        elif it["t"] == "include":
            body = []
            for k, L in enumerate(it["levels"]):
                body.append("#" * L + f" H{hi}\n\nP{hi}\n")
                levels.append(L + it["offset"])
                hlines.append(None)
                hi += 1
                # between the headings of the included file: constructs that trigger a nested render (which must not
                # disturb the heading offset) and headings nested in containers (rubrics must record level + offset)
                extra = (it.get("between") or [])
                if k < len(extra) and extra[k]:
                    kind, NL = extra[k]
                    if kind == "note":
                        body.append("```{note}\nnested *render*\n```\n")
                    elif kind == "role":
                        body.append("text {emphasis}`role` text\n")
                    elif kind == "div":
                        body.append(":::cls\ndiv body\n:::\n")
                    elif kind == "quoteh":
                        body.append("> lead\n>\n> " + "#" * NL + f" N{ni}\n")
                        nested.append((f"N{ni}", NL + it["offset"]))
                        ni += 1
                    elif kind == "listh":
                        body.append("- lead\n\n  " + "#" * NL + f" N{ni}\n")
                        nested.append((f"N{ni}", NL + it["offset"]))
                        ni += 1
                    elif kind in ("inc", "inc1"):
                        # an include inside the included file, without the option (its headings are not shifted at all:
                        # the offset is per include, not inherited) or with its own offset of 1
                        io = 1 if kind == "inc1" else 0
                        iname = f"inner{inc}_{k}.md"
                        if tmpdir is not None:
                            with open(os.path.join(tmpdir, iname), "w") as fh:
                                fh.write("#" * NL + f" H{hi}\n\nP{hi}\n")
                        body.append("```{include} " + iname + "\n" + (":heading-offset: 1\n" if io else "") + "```\n")
                        levels.append(NL + io)
                        hlines.append(None)
                        hi += 1
                    elif kind == "noteh":
                        body.append("```{note}\nlead\n\n" + "#" * NL + f" N{ni}\n```\n")
                        nested.append((f"N{ni}", NL + it["offset"]))
                        ni += 1
            fname = f"inc{inc}.md"
            inc += 1
            if tmpdir is not None:
                with open(os.path.join(tmpdir, fname), "w") as fh:
                    fh.write("\n".join(body))
            opt = f":heading-offset: {it['offset']}\n" if it["offset"] or it.get("explicit0") else ""
            out.append("```{include} " + fname + "\n" + opt + "```")
    return "\n\n".join(out) + "\n", levels, hlines, nested


def observe(doc):
    from docutils import nodes

    sections = {}
    for sec in doc.findall(nodes.section):
        title = sec[0].astext() if len(sec) and isinstance(sec[0], nodes.title) else None
        sections[title] = sec
    return sections


def check_case(acc, case) -> list[dict]:
    from docutils import nodes

    mk = (acc or Acc(PROPERTY, "replay")).violation
    has_inc = any(it["t"] == "include" for it in case["items"])
    tmp = tempfile.mkdtemp(prefix="verif-c05-") if has_inc else None
    try:
        text, levels, hlines, nested = build(case, tmp)
        src = os.path.join(tmp, "main.md") if tmp else "<string>"
        settings = {"myst_enable_extensions": ["colon_fence", "deflist", "fieldlist"], "myst_footnote_sort": False}
        if case.get("fm_title") == "config":
            settings["myst_title_to_header"] = True
        use_sphinx = any(it["t"] == "only" for it in case["items"])
        try:
            if use_sphinx:
                from checks import c01_total as c01
                from myst_parser.config.main import MdParserConfig

                proj = c01.sphinx_app()
                proj.app.env.myst_config = MdParserConfig(enable_extensions=["colon_fence", "deflist", "fieldlist"], footnote_sort=False)
                doc, warn = proj.read_doc("doc", text, post_transforms=False)
                src = os.path.join(proj.src, "doc.md")
            else:
                doc, warn = front.docutils_parse(text, source_path=src, settings=settings)
        except Exception as exc:  # noqa: BLE001
            return [mk(f"C05:render-raises:{type(exc).__name__}", case, "document", f"{type(exc).__name__}: {exc}")]
        text_wo = None
        if nested:
            case2 = {"fm_title": case.get("fm_title"), "items": [
                ({**it, "between": [None if (b and b[0] in ("quoteh", "listh", "noteh")) else b for b in (it.get("between") or [])]}
                 if it["t"] == "include" else it) for it in case["items"] if it["t"] not in ("nested", "only")]}
            text_wo, _, _, _ = build(case2, tmp)
            doc_wo, _ = front.docutils_parse(text_wo, source_path=src, settings=settings)
    finally:
        if tmp:
            shutil.rmtree(tmp, ignore_errors=True)
    vs = []
    exp = model(levels)
    secs = observe(doc)
    only_marks = [m for m, L in nested if L is None]
    nested = [(m, L) for m, L in nested if L is not None]
    n_sections = len([s for s in doc.findall(nodes.section) if not (len(s) and s[0].astext() in only_marks)])
    if n_sections != len(levels):
        vs.append(mk("C05:section-count", case, len(levels), n_sections))
    for i, (pidx, _w) in enumerate(exp):
        sec = secs.get(f"H{i}")
        if sec is None:
            vs.append(mk("C05:heading-without-section", case, f"section H{i}", sorted(k for k in secs if k)))
            break
        want_parent = doc if pidx < 0 else secs.get(f"H{pidx}")
        if sec.parent is not want_parent:
            got = sec.parent[0].astext() if isinstance(sec.parent, nodes.section) else type(sec.parent).__name__
            vs.append(mk("C05:wrong-parent-section", case, {"heading": i, "parent": pidx, "levels": levels},
                         {"heading": i, "parent": got}))
            break
        # the marker paragraph after heading i belongs to section i
        paras = [p for p in sec.children if isinstance(p, nodes.paragraph) and p.astext() == f"P{i}"]
        if len(paras) != 1 and not (i == 0 and case.get("fm_title")):
            vs.append(mk("C05:paragraph-not-in-its-section", case, f"P{i} under H{i}",
                         [c.astext()[:10] for c in sec.children]))
            break
    # source order of sections
    order = [s[0].astext() for s in doc.findall(nodes.section) if len(s) and s[0].astext() not in only_marks]
    if order != [f"H{i}" for i in range(len(levels))] and not vs:
        vs.append(mk("C05:section-order", case, [f"H{i}" for i in range(len(levels))], order))
    # warnings
    wl = [w for w in front.warning_lines(warn) if "[myst.header]" in w]
    n_exp = sum(1 for _p, w in exp if w)
    if only_marks:
        pass    # (the headings inside the block have warnings of their own; only the structure is compared)
    elif len(wl) != n_exp:
        vs.append(mk("C05:non-consecutive-warning-count", case, {"levels": levels, "expected": n_exp}, wl))
    else:
        exp_lines = sorted(hlines[i] for i, (_p, w) in enumerate(exp) if w and hlines[i] is not None)
        got_lines = []
        for w in wl:
            m = re.match(r"^(.*?):(\d+): ", w)
            if m and (m.group(1) == src):
                got_lines.append(int(m.group(2)))
        if sorted(got_lines) != exp_lines:
            vs.append(mk("C05:non-consecutive-warning-line", case, exp_lines, sorted(got_lines)))
    other = [w for w in front.warning_lines(warn) if "myst" in w and "[myst.header]" not in w]
    if other:
        vs.append(mk("C05:unexpected-warning", case, [], other[:3]))
    # nested headings: rubrics with their level, no section, structure unaffected
    if nested:
        rub = {r.astext(): r for r in doc.findall(nodes.rubric)}
        wrap_of = {}
        j = 0
        for it in case["items"]:     # same numbering as build(): markers N<j> in source order, includes' inner ones too
            if it["t"] == "nested":
                wrap_of[f"N{j}"] = it["wrap"]
                j += 1
            elif it["t"] == "include":
                for k in range(len(it["levels"])):
                    b = (it.get("between") or [])
                    if k < len(b) and b[k] and b[k][0] in ("quoteh", "listh", "noteh"):
                        j += 1
        for marker, L in nested:
            r = rub.get(marker)
            if r is None:
                vs.append(mk("C05:nested-heading-not-a-rubric", case, marker, sorted(rub)))
                break
            if r.get("level") != L:
                vs.append(mk("C05:rubric-level", case, L, r.get("level")))
                break
            # (the 'class' directive hoists its parsed body into the surrounding section by design)
            if isinstance(r.parent, (nodes.section, nodes.document)) and wrap_of.get(marker) != "class":
                vs.append(mk("C05:rubric-at-section-level", case, "inside container", type(r.parent).__name__))
                break

    if nested or only_marks:
        def tree(node):
            # (Sphinx re-inserts the sections of an 'only' block at document level: they are left out of the comparison)
            return [(s[0].astext(), tree(s)) for s in node.children if isinstance(s, nodes.section) and s[0].astext() not in only_marks]

        if tree(doc) != tree(doc_wo):
            vs.append(mk("C05:nested-heading-changes-section-structure", case, tree(doc_wo), tree(doc)))
    if acc is not None:
        dec_inc = any(levels[i] > levels[i + 1] and any(levels[j + 1] > levels[j] for j in range(i + 1, len(levels) - 1))
                      for i in range(len(levels) - 1))
        skip = any(w for _p, w in exp)
        acc.case(case, dec_inc or skip or bool(nested),
                 [f"len:{min(len(levels), 8)}"] + (["nested"] if nested else []) + (["include"] if has_inc else [])
                 + (["skip"] if skip else []),
                 sample={"levels": levels, "nested": nested, "include": has_inc})
    out, seen = [], set()
    for v in vs:
        if v["signature"] not in seen:
            seen.add(v["signature"])
            out.append(v)
    return out


def sub_enum(acc, shard, nshards, tier, seed):
    maxlen = 5 if tier == "quick" else 6
    kn = known()
    i = 0
    for n in range(0, maxlen + 1):
        for seq in itertools.product(range(1, 7), repeat=n):
            i += 1
            if i % nshards != shard:
                continue
            case = {"items": [{"t": "h", "level": L} for L in seq]}
            for v in check_case(acc, case):
                if kn.matches(v):
                    acc.known_hits[v["signature"]] += 1
                elif len(acc.violations) < 8 and all(v["signature"] != w["signature"] for w in acc.violations):
                    acc.violations.append(v)
    # both spellings of level-1 / level-2 headings: every sequence of <= 4 headings over {ATX 1-3, setext 1-2}
    kinds = [(1, False), (2, False), (3, False), (1, True), (2, True)]
    for n in range(1, 5):
        for seq in itertools.product(kinds, repeat=n):
            if not any(sx for _l, sx in seq):
                continue
            i += 1
            if i % nshards != shard:
                continue
            case = {"items": [{"t": "h", "level": L, "setext": sx} for L, sx in seq]}
            for v in check_case(acc, case):
                if kn.matches(v):
                    acc.known_hits[v["signature"]] += 1
                elif len(acc.violations) < 8 and all(v["signature"] != w["signature"] for w in acc.violations):
                    acc.violations.append(v)
    # Sphinx: headings inside an 'only' block between document headings (every level triple)
    for a in (1, 2):
        for inner in itertools.product((1, 2, 3), repeat=2):
            for b in (1, 2, 3, 4):
                i += 1
                if i % nshards != shard:
                    continue
                case = {"items": [{"t": "h", "level": a}, {"t": "only", "levels": list(inner)}, {"t": "h", "level": b}]}
                for v in check_case(acc, case):
                    if kn.matches(v):
                        acc.known_hits[v["signature"]] += 1
                    elif len(acc.violations) < 8 and all(v["signature"] != w["signature"] for w in acc.violations):
                        acc.violations.append(v)
    # a front-matter title as the first H1 (title_to_header, selected in the front matter or globally) x every sequence
    for how in ("front", "config"):
        for n in range(0, 4):
            for seq in itertools.product(range(1, 7), repeat=n):
                i += 1
                if i % nshards != shard:
                    continue
                case = {"fm_title": how, "items": [{"t": "h", "level": L} for L in seq]}
                for v in check_case(acc, case):
                    if kn.matches(v):
                        acc.known_hits[v["signature"]] += 1
                    elif len(acc.violations) < 8 and all(v["signature"] != w["signature"] for w in acc.violations):
                        acc.violations.append(v)
    # every container kind x nested level x surrounding level pair
    for w in ALL_WRAPS:
        for L in range(1, 7):
            for before in (1, 2):
                for after in (1, 2, 3):
                    i += 1
                    if i % nshards != shard:
                        continue
                    case = {"items": [{"t": "h", "level": before}, {"t": "nested", "level": L, "wrap": w},
                                      {"t": "h", "level": after}]}
                    for v in check_case(acc, case):
                        if kn.matches(v):
                            acc.known_hits[v["signature"]] += 1
                        elif len(acc.violations) < 8 and all(v["signature"] != x["signature"] for x in acc.violations):
                            acc.violations.append(v)
    # heading-offset includes: every offset x every in-between construct x (level, next level)
    for off in range(0, 4):
        for kind in ("note", "role", "div", "quoteh", "listh", "noteh", "inc", "inc1"):
            for L1 in (1, 2):
                for L2 in (1, 2, 3):
                    for NL in (1, 3):
                        i += 1
                        if i % nshards != shard:
                            continue
                        case = {"items": [{"t": "h", "level": 1},
                                          {"t": "include", "offset": off, "levels": [L1, L2, L2], "explicit0": True,
                                           "between": [(kind, NL), None, (kind, NL)]},
                                          {"t": "h", "level": 2 + (NL + L2) % 3}]}      # (after the include: level 2, 3 or 4)
                        for v in check_case(acc, case):
                            if kn.matches(v):
                                acc.known_hits[v["signature"]] += 1
                            elif len(acc.violations) < 8 and all(v["signature"] != x["signature"] for x in acc.violations):
                                acc.violations.append(v)
    acc.exhaustive = True
    acc.extra["enumerated_sequence_length"] = maxlen
    acc.extra["container_kinds"] = len(ALL_WRAPS)


item_st = st.one_of(
    st.builds(lambda L: {"t": "h", "level": L}, st.integers(1, 6)),
    st.builds(lambda L: {"t": "h", "level": L}, st.integers(1, 6)),
    st.builds(lambda L: {"t": "h", "level": L}, st.integers(1, 4)),
    st.builds(lambda L: {"t": "h", "level": L, "setext": True}, st.integers(1, 2)),
    st.builds(lambda k: {"t": "fill", "kind": k}, st.sampled_from(sorted(FILLERS))),
    st.builds(lambda L, w: {"t": "nested", "level": L, "wrap": w}, st.integers(1, 6), st.sampled_from(ALL_WRAPS)),
)
between_st = st.one_of(st.none(), st.tuples(st.sampled_from(["note", "role", "div", "quoteh", "listh", "noteh", "inc", "inc1"]), st.integers(1, 4)))
include_st = st.builds(lambda o, ls, e, b: {"t": "include", "offset": o, "levels": ls, "explicit0": e, "between": b},
                       st.integers(0, 3), st.lists(st.integers(1, 6), min_size=1, max_size=4), st.booleans(),
                       st.lists(between_st, max_size=4))


@st.composite
def random_case(draw):
    n = draw(st.integers(1, 40))
    items = [draw(item_st) for _ in range(n)]
    if draw(st.integers(0, 2)) == 0:
        for _ in range(draw(st.integers(1, 2))):
            items.insert(draw(st.integers(0, len(items))), draw(include_st))
    fm = draw(st.sampled_from([None, None, None, "front", "config"]))
    return {"items": items, "fm_title": fm} if fm else {"items": items}


def sub_random(acc, shard, nshards, tier, seed):
    n = 300 if tier == "quick" else 5000
    hyp_run(acc, random_case(), lambda c: check_case(acc, c), max_examples=n,
            seed=shard_seed(seed, shard, 9), is_known=known().matches)


def plan(tier):
    return [Sub("enum", sub_enum, 16), Sub("random", sub_random, 16)]


def replay(sub, input):
    return check_case(None, input)
