"""C16 - HTML-to-AST parser: total, tree-consistent, exact round trip on well-formed
HTML, copy/strip never alter the original, find() = brute-force filter in document order.
"""

from __future__ import annotations

import itertools
import traceback

from hypothesis import strategies as st

from vlib.core import Acc, CaseTimeout, Sub, hyp_run, shard_seed, watchdog
from vlib.findings import Known

PROPERTY = "C16"
RULE = (
    "(soup) Hypothesis concatenations of a markup-fragment vocabulary (<, </, />, <!--, -->, <!, "
    "<?, <![, &, &#, ;, quotes, void/raw-text/ordinary tag names) interleaved with arbitrary "
    "text: no exception, termination, walk() reaches every element exactly once, child.parent "
    "is its container. (wf) well-formed HTML from a grammar in the parser's canonical spelling "
    "(lower-case names, distinct double-quoted attributes, balanced non-void tags, void tags, "
    "<x/>, comments, doctype, PIs, char/entity refs, text, script/style raw text): "
    "str(tokenize_html(s)) == s, deepcopy/strip leave the original untouched, find() equals a "
    "brute-force filter over walk(). (enum) the same oracles on every forest of <= 4 (quick) / "
    "5 (thorough) nodes over 9 node labels. Non-trivial: parsed tree has depth >= 2 and >= 2 "
    "distinct element classes; distinct by input text."
)
RULE += (' find() is also queried with every pair of classes (both orders) and the empty class list. (history) an arbitrary, typically unterminated string is parsed first, then a well-formed document is held to the whole (wf) oracle: the result for a text does not depend on earlier calls.')
ASSUMPTIONS = [
    "well-formed = the forms listed in the property statement, spelled canonically "
    "(upper-case names, unquoted/entity-bearing attribute values, duplicate attributes, CDATA "
    "sections are normalised by design and not generated for the round trip)",
    "comment text follows the HTML rule (no '--', does not start with '>' or '->', does not end with '-')",
]
FLOOR = {"quick": 500, "thorough": 5000}

_known = None


def known() -> Known:
    global _known
    if _known is None:
        _known = Known(PROPERTY)
    return _known


def _mk(acc):
    return (acc or Acc(PROPERTY, "replay")).violation


def _exc_sig(exc: BaseException) -> str:
    tb = traceback.extract_tb(exc.__traceback__)
    fn = tb[-1].name if tb else "?"
    return f"C16:exc:{type(exc).__name__}:{fn}"


def tree_stats(root):
    """(depth, classes, count) computed through .children only."""
    classes = set()
    count = 0
    maxd = 0
    stack = [(root, 0)]
    while stack:
        e, d = stack.pop()
        count += 1
        classes.add(type(e).__name__)
        maxd = max(maxd, d)
        for c in e.children:
            stack.append((c, d + 1))
    return maxd, classes, count


def consistency(mk, text, root) -> list[dict]:
    vs = []
    seen = {}
    n = 0
    for e in root.walk(include_self=True):
        n += 1
        if id(e) in seen:
            vs.append(mk("C16:walk-yields-element-twice", text, "each element once", repr(e)))
            break
        seen[id(e)] = e
    _, _, count = tree_stats(root)
    if count != n and not vs:
        vs.append(mk("C16:walk-misses-elements", text, count, n))
    if root.parent is not None:
        vs.append(mk("C16:root-has-parent", text, None, repr(root.parent)))
    for e in seen.values():
        for c in e.children:
            if c.parent is not e:
                vs.append(mk("C16:child-parent-mismatch", text, repr(e), repr(c.parent)))
                return vs
    return vs


_HANGS = {"n": 0}     # non-terminating inputs met by this worker process (an enumeration stops after three)


def check_soup(acc, text: str) -> list[dict]:
    from myst_parser.parsers.parse_html import tokenize_html

    mk = _mk(acc)
    vs = []
    nontrivial = False
    cls = []
    # the root may be given a name (second parameter of the public function): no closing tag ever closes the root
    for conv, rootname in ((False, ""), (True, ""), (False, "div"), (False, "a")):
        try:
            with watchdog(20):
                root = tokenize_html(text, rootname, convert_charrefs=conv)
        except CaseTimeout:
            _HANGS["n"] += 1
            vs.append(mk("C16:nontermination", text, "terminates", "no result after 20s"))
            continue
        except Exception as exc:  # noqa: BLE001
            vs.append(mk(_exc_sig(exc), text, "a tree", f"{type(exc).__name__}: {exc}"))
            cls.append("raises")
            continue
        vs.extend(consistency(mk, text, root))
        try:
            str(root)
        except Exception as exc:  # noqa: BLE001
            vs.append(mk("C16:render-" + _exc_sig(exc), text, "renders", f"{type(exc).__name__}: {exc}"))
        if not conv and not rootname:
            d, classes, _ = tree_stats(root)
            nontrivial = d >= 2 and len(classes - {"Root"}) >= 2
            cls.extend(sorted(classes))
    if acc is not None:
        acc.case(text, nontrivial, cls, sample=text)
    # de-duplicate signatures (both modes usually fail alike)
    out, seen = [], set()
    for v in vs:
        if v["signature"] not in seen:
            seen.add(v["signature"])
            out.append(v)
    return out


def _describe(e):
    return (type(e).__name__, e.name, dict(e.attrs), getattr(e, "data", None))


def check_wellformed(acc, text: str) -> list[dict]:
    from myst_parser.parsers import parse_html as ph

    mk = _mk(acc)
    try:
        with watchdog(20):
            root = ph.tokenize_html(text)
    except CaseTimeout:
        _HANGS["n"] += 1
        return [mk("C16:nontermination", text, "terminates", "no result after 20s")]
    except Exception as exc:  # noqa: BLE001
        return [mk(_exc_sig(exc), text, "a tree", f"{type(exc).__name__}: {exc}")]
    vs = consistency(mk, text, root)
    out = str(root)
    if out != text:
        vs.append(mk("C16:roundtrip-differs", text, text, out))
    # --- copies never alter the original
    elems = list(root.walk(include_self=True))
    before = [(id(e), _describe(e), [id(c) for c in e.children], id(e.parent) if e.parent is not None else None)
              for e in elems]
    cp = root.deepcopy()
    if str(cp) != out:
        vs.append(mk("C16:deepcopy-renders-differently", text, out, str(cp)))
    if any(id(e) in {b[0] for b in before} for e in cp.walk(include_self=True)):
        vs.append(mk("C16:deepcopy-shares-elements", text, "fresh elements", "shared"))
    vs.extend(consistency(mk, text, cp))
    for recurse in (False, True):
        sp = root.strip(recurse=recurse)
        vs.extend(consistency(mk, text, sp))
        # expected content of the stripped copy
        def filt(e, depth):
            res = []
            for c in e.children:
                if isinstance(c, ph.Data) and c.data.strip() == "" and (recurse or depth == 0):
                    continue
                res.append((_describe(c), filt(c, depth + 1)))
            return res

        def shape(e):
            return [(_describe(c), shape(c)) for c in e.children]

        if shape(sp) != filt(root, 0):
            vs.append(mk(f"C16:strip-recurse={recurse}-wrong-content", text, repr(filt(root, 0))[:300],
                         repr(shape(sp))[:300]))
    # ... also when the copies are edited afterwards (attributes, children): they share nothing with the original
    for other in (cp, root.strip(recurse=True), root.strip(recurse=False)):
        for e in list(other.walk(include_self=True)):
            if isinstance(e, ph.Element) and not isinstance(e, ph.Data):
                try:
                    e.attrs["class"] = "edited-on-copy"
                    e.attrs["data-verif"] = "1"
                except Exception:  # noqa: BLE001  (terminal elements have no attribute mapping)
                    pass
        for e in list(other.walk(include_self=True)):
            if e.children:
                e.children.pop()
                break
    after = [(id(e), _describe(e), [id(c) for c in e.children], id(e.parent) if e.parent is not None else None)
             for e in root.walk(include_self=True)]
    if after != before or str(root) != out:
        vs.append(mk("C16:copy-or-strip-altered-original", text, "unchanged", "changed"))
    # --- find == brute-force filter in document order
    names = sorted({e.name for e in elems if e.name})[:4] + ["nosuch"]
    klasses = sorted({k for e in elems for k in e.attrs.classes})[:3] + ["nosuchclass"]
    attr_items = sorted({(k, v) for e in elems for k, v in e.attrs.items() if isinstance(v, str)})[:3]
    walked = list(root.walk())
    for name in names:
        exp = [e for e in walked if e.name == name]
        got = list(root.find(name))
        if [id(e) for e in got] != [id(e) for e in exp]:
            vs.append(mk("C16:find-by-name", text, [repr(e) for e in exp], [repr(e) for e in got]))
        for kl in klasses:
            exp2 = [e for e in exp if kl in e.attrs.get("class", "").split()]
            got2 = list(root.find(name, classes=[kl]))
            if [id(e) for e in got2] != [id(e) for e in exp2]:
                vs.append(mk("C16:find-by-name-and-class", text, [repr(e) for e in exp2],
                             [repr(e) for e in got2]))
        # several classes at once: an element matches when it carries all of them
        for i, k1 in enumerate(klasses):
            for k2 in klasses[i + 1:]:
                exp2 = [e for e in exp if {k1, k2} <= set(e.attrs.get("class", "").split())]
                for q in ([k1, k2], [k2, k1]):
                    got2 = list(root.find(name, classes=q))
                    if [id(e) for e in got2] != [id(e) for e in exp2]:
                        vs.append(mk("C16:find-by-name-and-classes", text, [repr(e) for e in exp2],
                                     [repr(e) for e in got2]))
        if [id(e) for e in root.find(name, classes=[])] != [id(e) for e in exp]:
            vs.append(mk("C16:find-by-name-and-no-classes", text, len(exp), "differs"))
        for k, v in attr_items:
            exp3 = [e for e in exp if e.attrs.get(k, "") == v]
            got3 = list(root.find(name, attrs={k: v}))
            if [id(e) for e in got3] != [id(e) for e in exp3]:
                vs.append(mk("C16:find-by-name-and-attr", text, [repr(e) for e in exp3],
                             [repr(e) for e in got3]))
    for klass in (ph.Tag, ph.VoidTag, ph.XTag, ph.Data, ph.Comment):
        exp = [e for e in walked if isinstance(e, klass)]
        got = list(root.find(klass))
        if [id(e) for e in got] != [id(e) for e in exp]:
            vs.append(mk("C16:find-by-class", text, [repr(e) for e in exp], [repr(e) for e in got]))
    exp = [e for e in [root] + walked if isinstance(e, ph.Element) and e.name == ""]
    # include_self / recurse=False variants
    got = list(root.find(ph.Element, recurse=False))
    if [id(e) for e in got] != [id(e) for e in root.children]:
        vs.append(mk("C16:find-recurse-false", text, len(root.children), len(got)))
    got = list(root.find(ph.Element, include_self=True))
    if [id(e) for e in got] != [id(e) for e in [root] + walked]:
        vs.append(mk("C16:find-include-self", text, len(walked) + 1, len(got)))
    d, classes, _ = tree_stats(root)
    if acc is not None:
        acc.case(text, d >= 2 and len(classes - {"Root"}) >= 2, sorted(classes) + [f"depth{min(d, 6)}"],
                 sample=text)
    out_vs, seen = [], set()
    for v in vs:
        if v["signature"] not in seen:
            seen.add(v["signature"])
            out_vs.append(v)
    return out_vs


# ------------------------------------------------------------------ generators

FRAGMENTS = [
    "<", "</", "/>", ">", "<!--", "-->", "--!>", "<!", "<?", "?>", "<![", "]]>", "<![CDATA[", "<![if ",
    "<![endif]>", "&", "&#", "&#x", ";", "'", '"', "=", " ", "\n", "\t", "/", "<!DOCTYPE", "<!doctype html>",
    "div", "p", "img", "br", "script", "style", "textarea", "title", "a", "b", "svg", "class", "src",
    "<div", "<img ", "<br/>", "</div>", "</p>", "<p>", "<script>", "</script>", "<style>", "</style>",
    '<a href="', "&amp;", "&#38;", "&#x26;", "&nosuch;", "<!-->", "<!--->", "<?php", "x", "-", "--",
    "\x00", "\r", "<A", "</A>", "<a\n", "<a/", "<a b", "<a b=", "<a b='", '<a b="', "<a b=c", "</ a>", "</>",
    "<!x", "<!-", "<![x", "<![ x", "<![temp[", "<![rcdata[",
]
TAGS = ["div", "p", "span", "b", "a", "ul", "li", "x-y", "h1", "table", "td"]
VOID = ["br", "img", "hr", "input", "meta"]
RAWTEXT = ["script", "style"]
ATTR_NAMES = ["class", "id", "src", "href", "alt", "data-x", "title", "k"]

soup = st.lists(st.one_of(st.sampled_from(FRAGMENTS), st.sampled_from(FRAGMENTS),
                          st.text(max_size=5)), max_size=14).map("".join)

text_data = st.text(alphabet=st.sampled_from("abc xyz\n\t.,;:!?'\"=/-é中>"), min_size=1, max_size=8)
ws_data = st.sampled_from([" ", "\n", "  \n ", "\t"])
attr_value = st.one_of(
    st.sampled_from(["", "a", "a b", "a b", "b a c", "b", "admonition note", "x.png", "#t", "1", " a ", "a'b", "<>", "a\nb", "None"]),
    st.text(alphabet=st.sampled_from("abc xyz-_.:/#'<>=\n"), max_size=6),
)


@st.composite
def attrs(draw):
    names = draw(st.lists(st.sampled_from(ATTR_NAMES), max_size=3, unique=True))
    return "".join(f' {n}="{draw(attr_value)}"' for n in names)


def comment_text():
    def ok(s):
        return "--" not in s and not s.startswith(">") and not s.startswith("->") and not s.endswith("-") \
            and "<!" not in s
    return st.text(alphabet=st.sampled_from("abc -<>&x!"), max_size=8).filter(ok)


leaf = st.one_of(
    text_data,
    text_data,
    ws_data,
    st.builds(lambda n, a: f"<{n}{a}>", st.sampled_from(VOID), attrs()),
    st.builds(lambda n, a: f"<{n}{a}/>", st.sampled_from(TAGS + VOID), attrs()),
    comment_text().map(lambda s: f"<!--{s}-->"),
    st.sampled_from(["<!DOCTYPE html>", "<!doctype html>", '<!DOCTYPE html PUBLIC "-//W3C//DTD">']),
    st.sampled_from(["<?xml version=\"1.0\"?>", "<?php echo 1 ?>", "<?x?>"]),
    st.integers(0, 0x10FFFF).map(lambda n: f"&#{n};"),
    st.integers(0, 0x10FFFF).map(lambda n: f"&#x{n:x};"),
    st.sampled_from(["&amp;", "&lt;", "&nbsp;", "&nosuch;", "&a.b-c;", "&A1;"]),
    st.builds(lambda n, a, t: f"<{n}{a}>{t}</{n}>", st.sampled_from(RAWTEXT), attrs(),
              st.text(alphabet=st.sampled_from("abc <>&;'\"=\n!-"), max_size=10).filter(lambda s: "</" not in s)),
)


def element(children):
    return st.builds(lambda n, a, ch: f"<{n}{a}>{''.join(ch)}</{n}>", st.sampled_from(TAGS), attrs(),
                     st.lists(children, max_size=4))


wellformed = st.lists(st.recursive(leaf, element, max_leaves=12), max_size=5).map("".join)


def sub_soup(acc, shard, nshards, tier, seed):
    n = 1500 if tier == "quick" else 120000
    hyp_run(acc, soup, lambda t: check_soup(acc, t), max_examples=n,
            seed=shard_seed(seed, shard), is_known=known().matches)


def sub_wf(acc, shard, nshards, tier, seed):
    n = 500 if tier == "quick" else 20000
    hyp_run(acc, wellformed, lambda t: check_wellformed(acc, t), max_examples=n,
            seed=shard_seed(seed, shard, 7), is_known=known().matches)


def check_history(acc, pair) -> list[dict]:
    """The result for a document does not depend on what was parsed before it in the same process: parse an
    arbitrary (typically truncated / unterminated) string first, then hold the well-formed document to the full oracle."""
    from myst_parser.parsers.parse_html import tokenize_html

    before, text = pair
    for conv in (False, True):
        try:
            with watchdog(20):
                tokenize_html(before, convert_charrefs=conv)
        except Exception:  # noqa: BLE001  (the soup sub-check owns crashes on the first string)
            pass
    vs = check_wellformed(None, text)
    for v in vs:
        v["input"] = [before, text]
        v["signature"] = v["signature"] + ":after-earlier-input"
    if acc is not None:
        unterminated = before.rstrip()[-1:] not in (">", "") or before.count("<") != before.count(">")
        acc.case(repr(pair), unterminated and bool(text), ["earlier-unterminated" if unterminated else "earlier-closed"],
                 sample=[before, text])
    return vs


TRUNCATED = ["text <di", "x &am", "x &#3", '<a href="x', "<!-- open", "<script>var x", "<![CDATA[ x", "<?pi x", "<!DOCTYPE",
             "<div class=", "</di", "<style>a{", "<p", "&", "<"]
history = st.tuples(st.one_of(st.sampled_from(TRUNCATED), soup, wellformed.map(lambda t: t[: max(0, len(t) - 3)])),
                    wellformed.filter(bool))


def sub_history(acc, shard, nshards, tier, seed):
    n = 400 if tier == "quick" else 15000
    hyp_run(acc, history, lambda p: check_history(acc, p), max_examples=n,
            seed=shard_seed(seed, shard, 11), is_known=known().matches)


def deep_text(shape: str, n: int) -> str:
    if shape == "balanced":
        return "<div>" * n + "x" + "</div>" * n
    if shape == "unclosed":
        return "<div>" * n + "x"
    if shape == "misnested":
        return "<a><p>" * (n // 2) + "x" + "</a>" * (n // 2)
    if shape == "attrs":
        return '<b class="k">' * n + "<br>" + "</b>" * n
    raise ValueError(shape)


def check_deep(acc, case) -> list[dict]:
    """Totality and parent consistency do not depend on the nesting depth (the parser keeps an explicit stack).  The
    tree is inspected with an explicit stack, too; the library's own recursive walk / render / copy hit Python's
    recursion limit on deep trees, which is a recorded finding."""
    from myst_parser.parsers import parse_html as ph

    mk = _mk(acc)
    text = deep_text(case["shape"], case["depth"])
    try:
        with watchdog(60):
            root = ph.tokenize_html(text)
    except CaseTimeout:
        return [mk("C16:nontermination", case, "terminates", "no result after 60s")]
    except Exception as exc:  # noqa: BLE001
        return [mk(_exc_sig(exc), case, "a tree", f"{type(exc).__name__}: {str(exc)[:200]}")]
    vs = []
    stack, count, depth = [(root, 0)], 0, 0
    seen = set()
    while stack:
        e, d = stack.pop()
        if id(e) in seen:
            vs.append(mk("C16:element-reachable-twice", case, "once", repr(e)[:80]))
            break
        seen.add(id(e))
        count += 1
        depth = max(depth, d)
        for c in e.children:
            if c.parent is not e:
                vs.append(mk("C16:child-parent-mismatch", case, repr(e)[:60], repr(c.parent)[:60]))
                stack = []
                break
            stack.append((c, d + 1))
    if case["shape"] in ("balanced", "unclosed", "attrs") and depth < case["depth"]:
        vs.append(mk("C16:deep-tree-truncated", case, f"depth >= {case['depth']}", depth))
    limited = False
    for name, fn in (("render", lambda: str(root)), ("walk", lambda: sum(1 for _ in root.walk())),
                     ("deepcopy", lambda: root.deepcopy()), ("strip", lambda: root.strip(recurse=True)),
                     ("find", lambda: list(root.find("div")))):
        try:
            out = fn()
        except RecursionError:
            limited = True
            # the recorded finding is the recursion limit of the interpreter (render: ~3 frames per level, the others: 1);
            # a RecursionError on a tree that is far from that limit is something else
            shallow = case["depth"] < (250 if name == "render" else 900)
            vs.append(mk("C16:recursion-error-on-shallow-tree" if shallow else "C16:recursion-limit-on-deep-tree", case,
                         f"{name}() works at any depth", "RecursionError"))
            continue
        if name == "render" and case["shape"] in ("balanced", "attrs") and out != text:
            vs.append(mk("C16:roundtrip-differs", case, text[:80], out[:80]))
        if name == "walk" and out != count - 1:
            vs.append(mk("C16:walk-count", case, count - 1, out))
    if acc is not None:
        acc.case(repr(case), True, [f"deep:{case['shape']}", "deep:library-recursion-" + ("limited" if limited else "ok")], sample=case)
    out_vs, seen_s = [], set()
    for v in vs:
        if v["signature"] not in seen_s:
            seen_s.add(v["signature"])
            out_vs.append(v)
    return out_vs


def sub_deep(acc, shard, nshards, tier, seed):
    kn = known()
    depths = [50, 200, 400, 700, 980, 1000, 1030, 1500, 3000] + ([6000, 20000] if tier == "thorough" else [])
    i = 0
    for shape in ("balanced", "unclosed", "misnested", "attrs"):
        for depth in depths:
            i += 1
            if i % nshards != shard:
                continue
            for v in check_deep(acc, {"shape": shape, "depth": depth}):
                if kn.matches(v):
                    acc.known_hits[v["signature"]] += 1
                elif len(acc.violations) < 8 and all(v["signature"] != w["signature"] for w in acc.violations):
                    acc.violations.append(v)
    acc.exhaustive = True


# exhaustive forests: labels; 'T' labels may have children
LABELS = [("T", "a"), ("T", "b"), ("V", "<br>"), ("X", "<c/>"), ("D", "x"), ("D", " "),
          ("C", "<!--c-->"), ("E", "&amp;"), ("T", 'a class="k"')]


def forests(n):
    """All ordered forests with exactly n nodes (as strings)."""
    if n == 0:
        yield ""
        return
    for kind, lab in LABELS:
        if kind == "T":
            name = lab.split()[0]
            for k in range(0, n):  # k nodes inside, n-1-k after
                for inner in forests(k):
                    for rest in forests(n - 1 - k):
                        yield f"<{lab}>{inner}</{name}>{rest}"
        else:
            for rest in forests(n - 1):
                yield lab + rest


def sub_enum(acc, shard, nshards, tier, seed):
    maxn = 4 if tier == "quick" else 5
    kn = known()
    i = 0
    for n in range(maxn + 1):
        for text in forests(n):
            i += 1
            if i % nshards != shard:
                continue
            if _HANGS["n"] >= 3:
                acc.notes.append("enumeration stopped after 3 non-terminating inputs")
                return
            for v in check_wellformed(acc, text):
                if kn.matches(v):
                    acc.known_hits[v["signature"]] += 1
                elif len(acc.violations) < 8 and all(v["signature"] != w["signature"] for w in acc.violations):
                    acc.violations.append(v)
    acc.extra["enumerated_forest_nodes"] = maxn


def sub_atheris(acc, shard, nshards, tier, seed):
    from vlib import fuzz

    fuzz.run_campaign(acc, "fuzz/fuzz_html.py", runs=400000, seed=shard_seed(seed, shard),
                      recheck=lambda t: check_soup(acc, t), known=known(),
                      dictionary=[f for f in FRAGMENTS if f.strip() and "\x00" not in f],
                      seeds=[b'<div class="a"><p>x</p><img src="y"></div>', b"<!--c--><?pi?>&amp;<br/>"]
                      if shard % 2 else None)


def plan(tier):
    subs = [Sub("soup", sub_soup, 8), Sub("wellformed", sub_wf, 12), Sub("enum", sub_enum, 12),
            Sub("history", sub_history, 4), Sub("deep", sub_deep, 2)]
    if tier == "thorough":
        subs = [Sub("soup", sub_soup, 16), Sub("wellformed", sub_wf, 16), Sub("enum", sub_enum, 16),
                Sub("history", sub_history, 8), Sub("deep", sub_deep, 4), Sub("atheris", sub_atheris, 4)]
    return subs


def replay(sub, input):
    if sub in ("soup", "atheris"):
        return check_soup(None, input)
    if sub == "history":
        return check_history(None, tuple(input))
    if sub == "deep":
        return check_deep(None, input)
    return check_wellformed(None, input)
