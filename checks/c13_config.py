"""C13 - config is validated and normalised; overrides behave the same at every level."""

from __future__ import annotations

import copy
import io
import json
import re

from hypothesis import strategies as st

from vlib import front, slugfuncs
from vlib.core import Acc, Sub, hyp_run, shard_seed
from vlib.findings import Known

PROPERTY = "C13"
RULE = (
    "(accept) every config field x a table of values of every JSON / YAML type written from the documented field types "
    "(valid spellings, wrong scalar types, wrong container types, nested wrong types; verdict VALID / INVALID / "
    "UNSPECIFIED per entry), plus Hypothesis-composed nested values for the structured fields, through four entry "
    "points: constructor, copy(), front matter (merge_file_level and a full parse), docutils settings of a real parse; "
    "(sphinx) a slice through conf values of a real Sphinx application. Oracle: accepted <=> VALID on the specified "
    "entries (UNSPECIFIED ones are counted, never reported); (canon) all spellings and entry points of one value - "
    "list / tuple / set, url_schemes list vs dict vs string value, dotted path vs callable, docutils option strings "
    "parsed by docutils' OptionParser with the Parser component - give equal, canonically typed configurations "
    "(enable_extensions / fence_as_directive are sets, url_schemes is dict[str, None | dict], heading_slug_func is "
    "callable); (effect) for every local field and VALID value, the doctree and warnings of '---\\nmyst: {f: v}\\n---\\n"
    "BODY' under a global configuration G equal those of BODY with f=v set in G (lines shifted by the "
    "front-matter length; dictionary fields merge over a non-empty global value), where BODY is a fixed document that uses every "
    "field's feature (exhaustive over a value table x 3 global configurations) or a Hypothesis document from the full "
    "grammar; an INVALID front-matter value gives exactly one myst.topmatter warning and the document "
    "renders as without it; (immutable) the global configuration object (deep copy of as_dict()) is unchanged by any "
    "parse, including through a live Sphinx application. Non-trivial: a coercing or dict-merge field with a "
    "non-default value, or an INVALID value; distinct by case."
)
RULE += (' Invalid values include dotted paths that import fine but name a non-callable.')
ASSUMPTIONS = [
    "the type table is written from the documentation (`myst-config` output: field type / doc_type); where the "
    "documentation is silent the entry is UNSPECIFIED: bool where int is documented, None for heading_anchors (the "
    "validator says optional, the type says int), a dict or a bare string where an iterable of names is documented, a "
    "set where a list is documented",
    "gfm_only / linkify need linkify-it-py (not importable): their effect is not exercised, only their validation",
]
FLOOR = {"quick": 300, "thorough": 3000}

V, I, U = "VALID", "INVALID", "UNSPECIFIED"

BOOL_FIELDS = ["commonmark_only", "gfm_only", "all_links_external", "links_external_new_tab", "title_to_header",
               "footnote_sort", "footnote_transition", "linkify_fuzzy_links", "dmath_allow_labels", "dmath_allow_space",
               "dmath_allow_digits", "dmath_double_inline", "update_mathjax", "enable_checkboxes", "highlight_code_blocks"]
BOOL_VALUES = [(True, V), (False, V), ("yes", I), ("true", I), ("", I), (None, I), ([], I), ({}, I), (1.0, I), ([True], I),
               (0, U), (1, U), (2, I)]
STRLIST_VALUES = [([], V), (["a"], V), (["a", "b"], V), (("a", "b"), V), ("a", I), (1, I), (None, I), ([1], I), (["a", None], I),
                  ([["a"]], I), ({"a": 1}, I), (True, I), ({"a"}, U)]

TABLE: dict[str, list] = {f: BOOL_VALUES for f in BOOL_FIELDS}
TABLE.update({
    "enable_extensions": [([], V), (["amsmath"], V), (["dollarmath", "colon_fence", "deflist"], V), (("tasklist",), V),
                          ({"strikethrough", "fieldlist"}, V), (["nosuch"], I), (["amsmath", "nosuch"], I), (1, I), (None, I),
                          (True, I), ([1], I), ([["amsmath"]], I), ("amsmath", I), ({"amsmath": 1}, U), ("", U)],
    "disable_syntax": STRLIST_VALUES,
    "number_code_blocks": STRLIST_VALUES,
    "suppress_warnings": STRLIST_VALUES,
    "fence_as_directive": [([], V), (["a"], V), (("a", "b"), V), ({"a"}, V), ("a", I), (1, I), (None, I), ([1], I), ({"a": 1}, I),
                           (True, I)],
    "ref_domains": [(None, V), ([], V), (["std"], V), (("py", "std"), V), ("std", I), (1, I), ([1], I), ({"std": 1}, I), (True, I)],
    "url_schemes": [([], V), (["http"], V), (["http", "https"], V), ({}, V), ({"http": None}, V), ({"w": "https://w/{{path}}"}, V),
                    ({"w": {"url": "https://w/{{path}}", "title": "T {{path}}", "classes": ["c"]}}, V), ({"w": {}}, V),
                    (("http",), V), (1, I), ("http", I), (None, I), ([1], I), (["http", None], I), ({1: None}, I), ({"w": 1}, I),
                    ({"w": ["x"]}, I), ({"w": {"url": 1}}, I), ({"w": {"title": ["t"]}}, I), ({"w": {"classes": "abc"}}, I),
                    ({"w": {"classes": [1]}}, I), ({"w": {"classes": ["a", None]}}, I), ({"w": {1: "x"}}, I), (True, I),
                    ({"w": {"unknown": 1}}, U), ({"w": {"classes": ("c",)}}, U)],
    "heading_anchors": [(0, V), (1, V), (3, V), (7, V), (8, I), (-1, I), (100, I), ("2", I), (2.5, I), ([], I), ([2], I), ({}, I),
                        (None, U), (True, U), (2.0, U)],
    "heading_slug_func": [(None, V), (slugfuncs.upper_dash, V), ("vlib.slugfuncs.upper_dash", V),
                          ("myst_parser.config.main._test_slug_func", V), (1, I), ([], I), ("nosuchmodule.f", I),
                          ("vlib.slugfuncs.nosuchattr", I), ("nodots", I), ("", I), ({}, I), (True, I),
                          # importable, but what it names is not callable
                          ("math.pi", I), ("os.sep", I), ("vlib.slugfuncs.NOT_A_FUNCTION", I), ("myst_parser.__version__", I)],
    "html_meta": [({}, V), ({"a": "b"}, V), ({"description lang=en": "d", "keywords": "k"}, V), (1, I), ("a", I), (None, I), ([], I),
                  ([["a", "b"]], I), ({"a": 1}, I), ({1: "a"}, I), ({"a": None}, I), ({"a": ["b"]}, I), (True, I)],
    "substitutions": [({}, V), ({"a": "b"}, V), ({"a": 1, "b": [1, 2], "c": {"d": None}}, V), (1, I), ("a", I), (None, I), ([], I),
                      ({1: "a"}, I), ({None: "a"}, I), (True, I)],
    "sub_delimiters": [(("{", "}"), V), (["[", "]"], V), (("{",), I), (("{", "}", "x"), I), ("{}", I), (("{{", "}}"), I), ((1, 2), I),
                       (None, I), (1, I), ({"{": "}"}, I), (("", ""), I)],
    "words_per_minute": [(200, V), (1, V), (0, U), (-5, U), ("200", I), (1.5, I), (None, I), ([], I), ({}, I), (True, U)],
    "mathjax_classes": [("a|b", V), ("", V), (1, I), (None, I), (["a"], I), (True, I)],
    "inventories": [({}, V), ({"k": ["https://e.org", None]}, V), ({"k": ("https://e.org", "p.inv")}, V), (1, I), ("k", I), (None, I),
                    ([], I), ({"k": "u"}, I), ({"k": ["u"]}, I), ({"k": ["u", None, 1]}, I), ({"k": [1, None]}, I), ({"k": ["u", 1]}, I),
                    ({1: ["u", None]}, I), (True, I)],
})

_known = None


def known() -> Known:
    global _known
    if _known is None:
        _known = Known(PROPERTY)
    return _known


def jsonable(v):
    if isinstance(v, (set, frozenset)):
        return {"__set__": sorted(v, key=repr)}
    if isinstance(v, tuple):
        return {"__tuple__": [jsonable(x) for x in v]}
    if callable(v):
        return {"__callable__": getattr(v, "__module__", "?") + "." + getattr(v, "__qualname__", "?")}
    if isinstance(v, list):
        return [jsonable(x) for x in v]
    if isinstance(v, dict):
        return {"__dict__": [[jsonable(k), jsonable(x)] for k, x in v.items()]}
    return v


def unjson(v):
    if isinstance(v, dict):
        if "__set__" in v:
            return set(unjson(x) for x in v["__set__"])
        if "__tuple__" in v:
            return tuple(unjson(x) for x in v["__tuple__"])
        if "__callable__" in v:
            mod, name = v["__callable__"].rsplit(".", 1)
            import importlib

            return getattr(importlib.import_module(mod), name)
        if "__dict__" in v:
            return {unjson(k): unjson(x) for k, x in v["__dict__"]}
    if isinstance(v, list):
        return [unjson(x) for x in v]
    return v


def canon_cfg(cfg) -> dict:
    """as_dict() with sets sorted and callables named, for comparison / reporting."""
    out = {}
    for k, v in cfg.as_dict().items():
        if isinstance(v, (set, frozenset)):
            v = ("set", sorted(v))
        elif isinstance(v, tuple):
            v = list(v)
        elif callable(v):
            v = ("callable", getattr(v, "__module__", "?") + "." + getattr(v, "__qualname__", "?"))
        out[k] = v
    return out


def yaml_ok(v) -> bool:
    """Can the value be written in front matter (JSON-compatible, string keys)?"""
    try:
        s = json.dumps(v)
    except TypeError:
        return False
    return json.loads(s) == v


# --------------------------------------------------------------------------- (accept)


def accept_via(entry, field, value):
    """-> (accepted: bool, resulting field value or None, info)"""
    from myst_parser.config.main import MdParserConfig, merge_file_level

    if entry == "ctor":
        try:
            cfg = MdParserConfig(**{field: value})
        except Exception as exc:  # noqa: BLE001
            return False, None, f"{type(exc).__name__}: {exc}"
        return True, getattr(cfg, field), ""
    if entry == "copy":
        try:
            cfg = MdParserConfig().copy(**{field: value})
        except Exception as exc:  # noqa: BLE001
            return False, None, f"{type(exc).__name__}: {exc}"
        return True, getattr(cfg, field), ""
    if entry == "merge":
        warns = []
        base = MdParserConfig()
        new = merge_file_level(base, {"myst": {field: value}}, lambda t, m: warns.append((t, m)))
        if warns:
            return False, getattr(new, field), str(warns)
        return True, getattr(new, field), ""
    if entry == "docutils":
        # a real parse with the value as a docutils setting (python object, as settings_overrides / Sphinx-like callers pass it)
        doc, warn = front.docutils_publish("text\n", settings={"myst_" + field: value})
        bad = "Global myst configuration invalid" in warn
        return (not bad), None, warn[:200]
    raise ValueError(entry)


def check_accept(acc, case) -> list[dict]:
    mk = (acc or Acc(PROPERTY, "replay")).violation
    field, value, verdict = case["field"], unjson(case["value"]), case["verdict"]
    vs = []
    results = {}
    from myst_parser.config.main import MdParserConfig

    fields = {f.name: f for f in MdParserConfig.get_fields()}
    entries = ["ctor", "copy", "merge"]
    needs_linkify = (field == "gfm_only" and value is True) or (
        field == "enable_extensions" and isinstance(value, (list, tuple, set)) and "linkify" in value)
    if "docutils" not in fields[field].metadata.get("omit", []) and not needs_linkify:
        entries.append("docutils")  # (gfm_only=True needs linkify-it-py for an actual parse)
    for entry in entries:
        try:
            results[entry] = accept_via(entry, field, copy.deepcopy(value))
        except Exception as exc:  # noqa: BLE001
            vs.append(mk(f"C13:entry-point-raises:{entry}:{type(exc).__name__}", case, "accepted or rejected", f"{type(exc).__name__}: {exc}"))
            continue
        ok = results[entry][0]
        if verdict == V and not ok:
            vs.append(mk(f"C13:valid-value-rejected:{field}", case, {"entry": entry, "accepted": True}, results[entry][2]))
        if verdict == I and ok:
            vs.append(mk(f"C13:invalid-value-accepted:{field}", case, {"entry": entry, "accepted": False},
                         {"accepted": True, "stored": repr(results[entry][1])[:200]}))
    # all entry points agree with each other (also on UNSPECIFIED values)
    oks = {e: r[0] for e, r in results.items()}
    if len(set(oks.values())) > 1:
        vs.append(mk(f"C13:entry-points-disagree:{field}", case, "same verdict at every entry point", oks))
    # front matter of a real document: an invalid value gives exactly one topmatter warning, body rendered as without it
    if verdict != V and yaml_ok(value) and oks.get("merge") is False:
        text = "---\nmyst:\n  " + field + ": " + json.dumps(value) + "\n---\n\nBody *text* here.\n"
        try:
            doc, warn = front.docutils_publish(text)
            doc0, warn0 = front.docutils_publish("\n\n\n\n\n\nBody *text* here.\n")
        except Exception as exc:  # noqa: BLE001
            vs.append(mk(f"C13:invalid-front-matter-raises:{type(exc).__name__}", case, "one topmatter warning", f"{type(exc).__name__}: {exc}"))
        else:
            wl = [w for w in front.warning_lines(warn) if "[myst.topmatter]" in w]
            others = [w for w in front.warning_lines(warn) if "[myst.topmatter]" not in w and ("WARNING" in w or "ERROR" in w)]
            if len(wl) != 1 or others:
                vs.append(mk("C13:invalid-front-matter-warning-count", case, "exactly one [myst.topmatter] warning", {"topmatter": wl, "other": others[:3]}))
            from docutils import nodes

            paras = [p.pformat() for p in doc.findall(nodes.paragraph) if not isinstance(p.parent, nodes.system_message)]
            paras0 = [p.pformat() for p in doc0.findall(nodes.paragraph)]
            if paras != paras0:
                vs.append(mk("C13:invalid-front-matter-changes-document", case, paras0, paras))
    if acc is not None:
        if verdict == U:
            acc.unspecified[f"{field}"] += 1
        coercing = field in ("enable_extensions", "url_schemes", "fence_as_directive", "heading_slug_func", "substitutions", "html_meta")
        acc.case(("accept", case), verdict == I or (coercing and verdict == V), [f"verdict:{verdict}", f"field:{field}"],
                 sample={"field": field, "value": repr(value)[:80], "verdict": verdict, "accepted": oks})
    return dedup(vs)


def dedup(vs):
    out, seen = [], set()
    for v in vs:
        if v["signature"] not in seen:
            seen.add(v["signature"])
            out.append(v)
    return out


def _record(acc, vs):
    kn = known()
    for v in vs:
        if kn.matches(v):
            acc.known_hits[v["signature"]] += 1
        elif len(acc.violations) < 8 and all(v["signature"] != x["signature"] for x in acc.violations):
            acc.violations.append(v)


def sub_accept(acc, shard, nshards, tier, seed):
    i = 0
    for field, rows in sorted(TABLE.items()):
        for value, verdict in rows:
            i += 1
            if i % nshards != shard:
                continue
            _record(acc, check_accept(acc, {"field": field, "value": jsonable(value), "verdict": verdict}))
    acc.exhaustive = True
    acc.extra["type_table_rows"] = sum(len(r) for r in TABLE.values())


# Hypothesis-composed nested values for the structured fields: built VALID, then optionally broken at one position
scalar_bad = st.sampled_from([1, 1.5, None, True, ["x"], {"k": "v"}])
name_st = st.sampled_from(["http", "wiki", "x", "a-b", "K"])


@st.composite
def nested_case(draw):
    field = draw(st.sampled_from(["url_schemes", "html_meta", "substitutions", "inventories", "enable_extensions", "sub_delimiters"]))
    breakit = draw(st.booleans())
    if field == "url_schemes":
        d = {}
        for k in draw(st.lists(name_st, min_size=1, max_size=3, unique=True)):
            form = draw(st.integers(0, 2))
            if form == 0:
                d[k] = None
            elif form == 1:
                d[k] = "https://e.org/{{path}}"
            else:
                d[k] = {kk: vv for kk, vv in (("url", "https://e.org/{{path}}#{{fragment}}"), ("title", "T {{path}}"),
                                              ("classes", draw(st.lists(st.sampled_from(["c1", "c2"]), max_size=2))))
                        if draw(st.booleans())}
        verdict = V
        if breakit:
            k = draw(st.sampled_from(sorted(d)))
            how = draw(st.integers(0, 4))
            if how == 0:
                d[k] = draw(st.sampled_from([1, 1.5, True, ["x"]]))
            elif how == 1:
                d[k] = {"url": draw(st.sampled_from([1, None, ["u"]]))}
            elif how == 2:
                d[k] = {"title": draw(st.sampled_from([1, None, ["t"]]))}
            elif how == 3:
                d[k] = {"classes": draw(st.sampled_from(["abc", 1, [1], ["a", 2], None, {"a": 1}]))}
            else:
                d[draw(st.sampled_from([1, None, 2.5]))] = None
            verdict = I
        value = d
    elif field == "html_meta":
        value = {k: "v" for k in draw(st.lists(st.sampled_from(["a", "description lang=en", "k"]), max_size=3, unique=True))}
        verdict = V
        if breakit:
            if draw(st.booleans()):
                value[draw(st.sampled_from(["a", "zz"]))] = draw(st.sampled_from([1, None, ["x"], {"a": "b"}, True]))
            else:
                value[draw(st.sampled_from([1, None]))] = "v"
            verdict = I
    elif field == "substitutions":
        value = {k: draw(st.sampled_from(["v", 1, None, [1], {"a": 1}, True])) for k in
                 draw(st.lists(st.sampled_from(["a", "b", "c"]), max_size=3, unique=True))}
        verdict = V
        if breakit:
            value[draw(st.sampled_from([1, None, 2.5, True]))] = "v"
            verdict = I
    elif field == "inventories":
        value = {k: [f"https://{k}.org", draw(st.sampled_from([None, "p.inv"]))] for k in
                 draw(st.lists(st.sampled_from(["a", "b"]), max_size=2, unique=True))}
        verdict = V
        if breakit:
            value["z"] = draw(st.sampled_from(["u", ["u"], ["u", None, 1], [1, None], ["u", 1], None, 1, {"u": None}]))
            verdict = I
    elif field == "enable_extensions":
        pool = ["amsmath", "attrs_inline", "attrs_block", "colon_fence", "deflist", "dollarmath", "fieldlist", "html_admonition",
                "html_image", "replacements", "smartquotes", "strikethrough", "substitution", "tasklist", "linkify", "attrs_image"]
        names = draw(st.lists(st.sampled_from(pool), max_size=5, unique=True))
        value = draw(st.sampled_from([list, tuple, set]))(names)
        verdict = V
        if breakit:
            value = list(names) + [draw(st.sampled_from(["nosuch", "Amsmath", "colon-fence", ""]))]
            verdict = I
    else:
        value = draw(st.sampled_from([("{", "}"), ["[", "]"], ("<", ">"), ("é", "中")]))
        verdict = V
        if breakit:
            value = draw(st.sampled_from([("{{", "}"), ("{",), ("{", "}", "}"), ("", "}"), (1, "}"), "{}"]))
            verdict = I
    return {"field": field, "value": jsonable(value), "verdict": verdict}


def sub_nested(acc, shard, nshards, tier, seed):
    n = 150 if tier == "quick" else 3000
    hyp_run(acc, nested_case(), lambda c: check_accept(acc, c), max_examples=n,
            seed=shard_seed(seed, shard, 13), is_known=known().matches)


# --------------------------------------------------------------------------- (canon)

SPELLINGS = {
    # field -> list of groups; every member of a group must give the same canonical field value
    "enable_extensions": [[["dollarmath", "deflist"], ("deflist", "dollarmath"), {"dollarmath", "deflist"}, ["deflist", "dollarmath", "deflist"]]],
    "fence_as_directive": [[["a", "b"], ("b", "a"), {"a", "b"}]],
    "url_schemes": [[["http", "wiki"], ("http", "wiki"), {"http": None, "wiki": None}],
                    [{"w": "https://w/{{path}}"}, {"w": {"url": "https://w/{{path}}"}}]],
    "heading_slug_func": [["vlib.slugfuncs.upper_dash", slugfuncs.upper_dash]],
    "disable_syntax": [[["table", "link"], ("table", "link")]],
    "number_code_blocks": [[["python"], ("python",)]],
    "sub_delimiters": [[("[", "]"), ["[", "]"]]],
}
CANON_TYPE = {"enable_extensions": set, "fence_as_directive": set, "url_schemes": dict}
DOCUTILS_STRINGS = [
    # (field, option string, equivalent python value)
    ("enable_extensions", "dollarmath,deflist", ["dollarmath", "deflist"]),
    ("enable_extensions", "dollarmath, deflist ,", ["dollarmath", "deflist"]),
    ("fence_as_directive", "a,b", ["a", "b"]),
    ("disable_syntax", "table,link", ["table", "link"]),
    ("number_code_blocks", "python", ["python"]),
    ("url_schemes", "http,wiki", ["http", "wiki"]),
    ("url_schemes", "{http: null, wiki: 'https://w/{{path}}'}", {"http": None, "wiki": "https://w/{{path}}"}),
    ("url_schemes", "{w: {url: 'https://w/{{path}}', classes: [c]}}", {"w": {"url": "https://w/{{path}}", "classes": ["c"]}}),
    ("heading_anchors", "3", 3),
    ("words_per_minute", "150", 150),
    ("heading_slug_func", "vlib.slugfuncs.upper_dash", "vlib.slugfuncs.upper_dash"),
    ("html_meta", "{a: b, 'description lang=en': d}", {"a": "b", "description lang=en": "d"}),
    ("substitutions", "{a: b, n: 1}", {"a": "b", "n": 1}),
    ("footnote_sort", "no", False), ("footnote_sort", "yes", True), ("footnote_sort", "0", False), ("title_to_header", "true", True),
    ("all_links_external", "on", True), ("suppress_warnings", "myst.header,myst.strikethrough", ["myst.header", "myst.strikethrough"]),
    ("inventories", "{k: [u, null]}", {"k": ["u", None]}),
]


def field_canon(field, v):
    if isinstance(v, (set, frozenset)):
        return ("set", sorted(v))
    if isinstance(v, tuple):
        return ("seq", list(v))
    if isinstance(v, list):
        return ("seq", v)
    if callable(v):
        return ("callable", v.__module__ + "." + v.__qualname__)
    return v


def sub_canon(acc, shard, nshards, tier, seed):
    from docutils.frontend import OptionParser

    from myst_parser.config.main import MdParserConfig, merge_file_level
    from myst_parser.parsers.docutils_ import Parser, create_myst_config

    mk = acc.violation
    if shard != 0:
        return
    for field, groups in sorted(SPELLINGS.items()):
        for group in groups:
            seen = {}
            for spelled in group:
                for entry in ("ctor", "copy", "merge"):
                    if entry == "merge" and not yaml_ok(spelled):
                        continue
                    ok, stored, info = accept_via(entry, field, copy.deepcopy(spelled))
                    case = {"field": field, "value": jsonable(spelled), "entry": entry}
                    if not ok:
                        _record(acc, [mk(f"C13:valid-value-rejected:{field}", case, "accepted", info)])
                        continue
                    want_t = CANON_TYPE.get(field)
                    if want_t and not isinstance(stored, want_t):
                        _record(acc, [mk(f"C13:not-normalised:{field}", case, want_t.__name__, f"{type(stored).__name__}: {stored!r}"[:200])])
                    if field == "heading_slug_func" and not callable(stored):
                        _record(acc, [mk("C13:not-normalised:heading_slug_func", case, "callable", repr(stored))])
                    if field == "url_schemes" and isinstance(stored, dict) and not all(
                            x is None or isinstance(x, dict) for x in stored.values()):
                        _record(acc, [mk("C13:not-normalised:url_schemes", case, "dict[str, None | dict]", repr(stored)[:200])])
                    seen[(repr(spelled)[:60], entry)] = field_canon(field, stored)
                    acc.case(("canon", case), True, ["canon", f"field:{field}", f"entry:{entry}"],
                             sample={"field": field, "spelling": repr(spelled)[:60], "entry": entry, "stored": repr(stored)[:80]})
            vals = list(seen.values())
            if any(json.dumps(x, sort_keys=True, default=str) != json.dumps(vals[0], sort_keys=True, default=str) for x in vals):
                _record(acc, [mk(f"C13:spellings-differ:{field}", {"field": field, "group": [repr(g)[:60] for g in group]},
                                 "one canonical value", {f"{k[0]} via {k[1]}": repr(v)[:100] for k, v in seen.items()})])
    # docutils option strings through the real option parser
    for field, string, pyval in DOCUTILS_STRINGS:
        case = {"field": field, "string": string}
        flag = "--myst-" + field.replace("_", "-")
        try:
            op = OptionParser(components=(Parser,), read_config_files=False)
            settings = op.parse_args([flag + "=" + string]) if False else op.parse_args([flag, string])
            cfg_s = create_myst_config(settings)
            cfg_p = MdParserConfig(**{field: copy.deepcopy(pyval)})
        except (Exception, SystemExit) as exc:  # noqa: BLE001
            _record(acc, [mk(f"C13:docutils-option-string-rejected:{field}", case, f"same as python value {pyval!r}", f"{type(exc).__name__}: {exc}")])
            continue
        a, b = canon_cfg(cfg_s), canon_cfg(cfg_p)
        if a != b:
            diff = {k: (a[k], b[k]) for k in a if a[k] != b.get(k)}
            _record(acc, [mk(f"C13:docutils-option-string-differs:{field}", case, {k: v[1] for k, v in diff.items()}, {k: v[0] for k, v in diff.items()})])
        acc.case(("optstr", case), True, ["canon", "entry:docutils-option-string", f"field:{field}"],
                 sample={"field": field, "option_string": string, "python": repr(pyval)})
    acc.exhaustive = True


# --------------------------------------------------------------------------- (effect)

BODY_DEFAULT = """# Head one

para with ~~strike~~ and $m$ and {{ s1 }} and {{ s2 }} text (c) "quoted" -- dash

## Head two

[u](http://e.org/a?b=1) [w](wiki://page#frag) <wiki:other> [x](x:y) [r](rel.md) [t](#head-two)

- [ ] task
- [x] done

Term
: definition

:field: value

:::{note}
colon fence
:::

```python
x = 1
```

```{code-block} python
y = 2
```

```mydir
arg
```

$$
e = mc^2
$$ (lbl)

[^b] [^a]

[^a]: note a

[^b]: note b

| a | b |
|---|---|
| 1 | 2 |

<div class="admonition">
<p>html admonition</p>
</div>

<img src="i.png" alt="alt">

\\begin{equation}
a = 1
\\end{equation}
"""

EFFECT_VALUES = {
    "enable_extensions": [["strikethrough", "dollarmath"], ["substitution", "tasklist", "deflist"], ["colon_fence", "fieldlist", "amsmath"],
                          ["html_admonition", "html_image", "replacements", "smartquotes"], []],
    "disable_syntax": [["table"], ["emphasis", "link"], ["fence", "heading"], []],
    "all_links_external": [True, False],
    "links_external_new_tab": [True],
    "url_schemes": [["http"], ["wiki", "x"], {"wiki": "https://w.org/{{path}}#{{fragment}}"},
                    {"wiki": {"url": "https://w.org/{{path}}", "title": "W {{path}}", "classes": ["c1"]}, "http": None}, {}],
    "fence_as_directive": [["mydir"], ["python"], ["mydir", "python"]],
    "number_code_blocks": [["python"], ["mydir"]],
    "heading_anchors": [0, 1, 2, 7],
    "html_meta": [{"keywords": "a, b"}, {"description lang=en": "d", "x": "y"}],
    "footnote_sort": [True, False],
    "footnote_transition": [True, False],
    "substitutions": [{"s1": "one"}, {"s1": "*em*", "s2": "two"}, {"s2": 3}],
    "dmath_allow_labels": [True, False],
    "dmath_double_inline": [True],
    "dmath_allow_space": [False],
    "dmath_allow_digits": [False],
    "enable_checkboxes": [True],
    "highlight_code_blocks": [True, False],
    "commonmark_only": [True],
    "words_per_minute": [10],
    "title_to_header": [True],
}
GLOBAL_BASES = [
    {},
    {"enable_extensions": ["strikethrough", "dollarmath", "substitution", "tasklist", "deflist", "colon_fence", "fieldlist", "amsmath"],
     "substitutions": {"s1": "global one", "s2": "global two"}, "html_meta": {"keywords": "global", "g": "h"}},
    {"enable_extensions": ["substitution", "dollarmath"], "heading_anchors": 2, "footnote_sort": False,
     "substitutions": {"s2": "G2"}, "url_schemes": ["http", "https", "wiki"]},
]
MERGE_FIELDS = ("substitutions", "html_meta")


def shift_lines(s: str, k: int) -> str:
    s = re.sub(r' line="(\d+)"', lambda m: f' line="{int(m.group(1)) - k}"', s)
    return s


def shift_warnings(w: str, k: int) -> list[str]:
    out = []
    for ln in front.warning_lines(w):
        out.append(re.sub(r"^(<string>|.*?\.md):(\d+):", lambda m: f"{m.group(1)}:{int(m.group(2)) - k}:", ln))
    return out


def check_effect(acc, case) -> list[dict]:
    mk = (acc or Acc(PROPERTY, "replay")).violation
    field, value, base = case["field"], case["value"], case["base"]
    BODY = case.get("body") or BODY_DEFAULT
    closer = case.get("closer", "---")   # a front-matter block ends with '---' or with YAML's document end marker '...'
    fm_lines = ["---", "myst:", "  " + field + ": " + json.dumps(value), closer, ""]
    if field == "title_to_header":
        fm_lines = ["---", "title: FM Title", "myst:", "  " + field + ": " + json.dumps(value), closer, ""]
    text_fm = "\n".join(fm_lines) + "\n" + BODY
    k = len(fm_lines)
    # the global spelling: same body, same number of leading lines (a comment-free blank prefix would change nothing
    # but line numbers; we shift instead)
    glob = dict(base)
    if field in MERGE_FIELDS:
        glob[field] = {**base.get(field, {}), **value}
    else:
        glob[field] = value
    if field == "title_to_header":
        text_gl = "---\ntitle: FM Title\n---\n\n" + BODY
        k_gl = 4
    else:
        text_gl = BODY
        k_gl = 0
    set_fm = {"myst_" + f: v for f, v in base.items()}
    set_gl = {"myst_" + f: v for f, v in glob.items()}
    for d in (set_fm, set_gl):
        d.setdefault("myst_highlight_code_blocks", True)
    errs = []
    d1 = d2 = None
    for which, text, st_ in (("front-matter", text_fm, set_fm), ("global", text_gl, set_gl)):
        try:
            d, w = front.docutils_publish(text, settings=st_)
        except Exception as exc:  # noqa: BLE001
            errs.append((which, f"{type(exc).__name__}: {exc}"))
            continue
        if which == "front-matter":
            d1, w1 = d, w
        else:
            d2, w2 = d, w
    if len(errs) == 2:
        # the document cannot be rendered at all: that is the totality property's business (C01), not a difference
        if acc is not None:
            acc.excluded["render-raises-in-both-spellings (C01)"] += 1
        return []
    if errs:
        return [mk(f"C13:only-one-spelling-renders:{field}", case, "both spellings render", errs)]
    vs = []
    a = shift_lines(d1.pformat(), k)
    b = shift_lines(d2.pformat(), k_gl)
    if a != b:
        # a line number that is the same in both spellings *before* shifting was computed relative to a directive
        # (docutils' parsed-literal: content offset + 1), not to the file: whether it is true is C04's subject, and it
        # says nothing about where the configuration came from
        ra, rb = d1.pformat().splitlines(), d2.pformat().splitlines()
        if len(ra) == len(rb) and all(shift_lines(x, k) == shift_lines(y, k_gl) or (x == y and ' line="' in x)
                                      for x, y in zip(ra, rb)):
            a = b
            if acc is not None:
                acc.classes["directive-relative-line-ignored"] += 1
    if a != b:
        i = next((j for j in range(min(len(a), len(b))) if a[j] != b[j]), min(len(a), len(b)))
        vs.append(mk(f"C13:front-matter-differs-from-global:{field}", case, b[max(0, i - 150):i + 250], a[max(0, i - 150):i + 250]))
    wa, wb = shift_warnings(w1, k), shift_warnings(w2, k_gl)
    if wa != wb and k != k_gl:
        # same rule for the log lines of such a directive-relative system message
        r1, r2 = front.warning_lines(w1), front.warning_lines(w2)
        if len(r1) == len(r2) and all(p == q or x == y for p, q, x, y in zip(wa, wb, r1, r2)):
            wa = wb
    if wa != wb:
        vs.append(mk(f"C13:front-matter-warnings-differ-from-global:{field}", case, wb[:8], wa[:8]))
    if acc is not None:
        acc.case(("effect", case), True, ["effect", f"field:{field}", f"base:{len(base)}"],
                 sample={"field": field, "value": value, "global_base": base})
    return dedup(vs)


def sub_effect(acc, shard, nshards, tier, seed):
    i = 0
    for field, values in sorted(EFFECT_VALUES.items()):
        for value in values:
            for base in GLOBAL_BASES:
                i += 1
                if i % nshards != shard:
                    continue
                # (every third case closes the block with '...')
                _record(acc, check_effect(acc, {"field": field, "value": value, "base": base, **({"closer": "..."} if i % 3 == 0 else {})}))
    acc.exhaustive = True


@st.composite
def effect_case(draw):
    from vlib import mdgen

    field = draw(st.sampled_from(sorted(f for f in EFFECT_VALUES if f not in ("commonmark_only", "title_to_header"))))
    value = draw(st.sampled_from(EFFECT_VALUES[field]))
    base = draw(st.sampled_from(GLOBAL_BASES))
    blocks = draw(mdgen.blocks_st(mdgen.FULL - {"hr"}, wild=False, max_blocks=5))
    return {"field": field, "value": value, "base": base, "body": mdgen.render(blocks), "closer": draw(st.sampled_from(["---", "---", "..."]))}


def sub_effect_random(acc, shard, nshards, tier, seed):
    n = 60 if tier == "quick" else 2500
    hyp_run(acc, effect_case(), lambda c: check_effect(acc, c), max_examples=n,
            seed=shard_seed(seed, shard, 14), is_known=known().matches)


# --------------------------------------------------------------------------- (immutable) + sphinx


def sub_immutable(acc, shard, nshards, tier, seed):
    """The global configuration object is never modified by parsing (live Sphinx application: the one shared object)."""
    from myst_parser.config.main import MdParserConfig, merge_file_level

    mk = acc.violation
    if shard != 0:
        return
    docs = [
        "---\nmyst:\n  enable_extensions: [strikethrough]\n  substitutions: {s1: fm}\n  html_meta: {a: b}\n  url_schemes: [wiki]\n---\n" + BODY_DEFAULT,
        "```{figure-md}\n![alt](img.png)\n\ncaption\n```\n\n" + BODY_DEFAULT,
        "---\nsubstitutions:\n  s2: top\nhtml_meta:\n  k: v\n---\n{{ s2 }}\n",
        "---\nmyst:\n  heading_anchors: 3\n  fence_as_directive: [python]\n  bogus: 1\n  enable_extensions: nosuch\n---\n" + BODY_DEFAULT,
        "```{include} nosuch.md\n:heading-offset: 1\n```\n",
        # a per-document configuration (front matter present) combined with constructs that adjust the configuration while rendering
        "---\nmyst:\n  heading_anchors: 2\n---\n```{figure-md}\n![alt](img.png)\n\ncaption\n```\n\n<img src=\"x.png\">\n",
        "---\nmyst:\n  substitutions: {s1: fm}\n---\n{{ s1 }}\n\n```{figure-md}\n:name: f\n![alt](img.png){w=10px}\n\ncaption {{ s2 }}\n```\n",
        "---\nmyst:\n  enable_extensions: [deflist]\n---\n```{figure-md}\n![alt](img.png)\n\ncaption\n```\n",
        "---\nmyst:\n  html_meta: {a: b}\n  url_schemes: {wiki: 'https://w/{{path}}'}\n---\n[x](wiki:y)\n",
    ]
    # (plus a global configuration in which the extensions that directives switch on for their own body are on already)
    bases = [dict(b) for b in GLOBAL_BASES] + [{"enable_extensions": ["html_image", "html_admonition", "substitution", "attrs_inline"],
                                               "substitutions": {"s1": "g1", "s2": "g2"}}]
    with front.sphinx_project() as proj:
        for bi, base in enumerate(bases):
            cfg = MdParserConfig(**copy.deepcopy(base))
            proj.app.env.myst_config = cfg
            snap = copy.deepcopy(canon_cfg(cfg))
            ids = {k: id(getattr(cfg, k)) for k in ("enable_extensions", "substitutions", "html_meta", "url_schemes")}
            for di, text in enumerate(docs):
                try:
                    proj.read_doc("doc", text)
                except Exception as exc:  # noqa: BLE001
                    acc.excluded[f"render-raises:{type(exc).__name__}"] += 1
                    continue
                now = canon_cfg(proj.app.env.myst_config)
                case = {"base": base, "doc": di}
                if proj.app.env.myst_config is not cfg or now != snap:
                    diff = {k: (snap.get(k), now.get(k)) for k in now if now.get(k) != snap.get(k)}
                    _record(acc, [mk("C13:global-config-modified-by-parse", case, "unchanged", diff)])
                acc.case(("immutable", bi, di), True, ["immutable", "frontend:sphinx"], sample={"global": base, "doc": text[:120]})
    # direct API
    for bi, base in enumerate(bases):
        cfg = MdParserConfig(**copy.deepcopy(base))
        snap = copy.deepcopy(canon_cfg(cfg))
        for tm in ({"myst": {"substitutions": {"s1": "x"}, "html_meta": {"q": "r"}, "enable_extensions": ["deflist"], "url_schemes": ["zz"]}},
                   {"substitutions": {"s9": 1}, "html_meta": {"h": "i"}}, {"myst": {"substitutions": 1, "bogus": 2}}, {"myst": 3}):
            new = merge_file_level(cfg, copy.deepcopy(tm), lambda t, m: None)
            if new is cfg or canon_cfg(cfg) != snap:
                _record(acc, [mk("C13:global-config-modified-by-merge", {"base": base, "topmatter": tm}, snap, canon_cfg(cfg))])
            acc.case(("immutable-api", bi, json.dumps(tm, sort_keys=True)), True, ["immutable", "api"], sample={"global": base, "topmatter": tm})


def sub_sphinx(acc, shard, nshards, tier, seed):
    """conf.py values of a real Sphinx application: invalid ones are reported and the defaults used, valid ones arrive."""
    from myst_parser.config.main import MdParserConfig

    mk = acc.violation
    rows = []
    for field, vals in sorted(TABLE.items()):
        f = {x.name: x for x in MdParserConfig.get_fields()}[field]
        if "sphinx" in f.metadata.get("omit", []):
            continue
        for value, verdict in vals:
            if verdict != U:
                rows.append((field, value, verdict))
    step = 6 if tier == "quick" else 1
    for i, (field, value, verdict) in enumerate(rows):
        if i % nshards != shard or (i // nshards) % step:
            continue
        case = {"field": field, "value": jsonable(value), "verdict": verdict}
        if callable(value):
            conf = "import sys\nsys.path.insert(0, '/verif')\nfrom vlib import slugfuncs\nmyst_" + field + " = slugfuncs." + value.__name__ + "\n"
        else:
            conf = "myst_" + field + " = " + repr(value) + "\n"   # a conf.py assignment, as a user writes it
        stored = None
        try:
            with front.sphinx_project(conf_text=conf) as proj:
                log = proj.take_warnings()
                cfg = proj.app.env.myst_config
                bad = "myst configuration invalid" in log
                stored = getattr(cfg, field)
        except Exception as exc:  # noqa: BLE001
            # Sphinx (ConfigError) or a later handler refused the value: that is a rejection, if an ungraceful one
            bad = True
            log = f"{type(exc).__name__}: {exc}"[:300]
            acc.unspecified[f"sphinx-rejects-by-exception:{type(exc).__name__}"] += 1
        if verdict == V and bad:
            _record(acc, [mk(f"C13:valid-value-rejected:{field}", {**case, "entry": "sphinx"}, "accepted", log[:200])])
        if verdict == I and not bad:
            _record(acc, [mk(f"C13:invalid-value-accepted:{field}", {**case, "entry": "sphinx"}, "reported as invalid", repr(stored)[:200])])
        if verdict == V and not bad:
            try:
                want = getattr(MdParserConfig(**{field: copy.deepcopy(value)}), field)
            except Exception:  # noqa: BLE001
                want = None
            if field_canon(field, stored) != field_canon(field, want):
                _record(acc, [mk(f"C13:sphinx-conf-value-differs:{field}", case, repr(want)[:200], repr(stored)[:200])])
        acc.case(("sphinx", case), True, ["entry:sphinx", f"verdict:{verdict}"], sample={"field": field, "value": repr(value)[:60], "verdict": verdict})


def plan(tier):
    return [Sub("accept", sub_accept, 6), Sub("nested", sub_nested, 3), Sub("canon", sub_canon, 1), Sub("effect", sub_effect, 4), Sub("effect_random", sub_effect_random, 6),
            Sub("immutable", sub_immutable, 1), Sub("sphinx", sub_sphinx, 4 if tier == "quick" else 16)]


def replay(sub, input):
    if sub in ("accept", "nested"):
        return check_accept(None, input)
    if sub in ("effect", "effect_random"):
        return check_effect(None, input)
    acc = Acc(PROPERTY, sub)
    {"canon": sub_canon, "immutable": sub_immutable, "sphinx": sub_sphinx}[sub](acc, 0, 1, "quick", 1)
    return acc.violations
