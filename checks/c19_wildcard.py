"""C19 - inventory filtering implements exactly the documented wildcard semantics."""

from __future__ import annotations

import itertools
import os
import posixpath
import shutil
import tempfile
import zlib

from hypothesis import strategies as st

from vlib import front
from vlib.core import Acc, Sub, hyp_run, shard_seed
from vlib.findings import Known

PROPERTY = "C19"
RULE = (
    "(pairs) exhaustive (pattern, name) pairs up to length 4x4 (quick) / 5x5 (thorough) over the alphabet "
    "[a b * \\ . [] plus Hypothesis pairs over longer text without newlines; oracle = reference matcher "
    "written from the statement (left-to-right scan: '\\*' literal star, '*' any run, every other character "
    "- including a lone or trailing backslash - itself; full match by dynamic programming, no re). "
    "(filter) Hypothesis inventories x filter quadruples (each coordinate None / literal / wildcard): "
    "filter_inventories == brute-force filter in inventory order == filter_sphinx_inventories(to_sphinx). "
    "(links) documents with inv: links in every spelling against generated inventory files through "
    "myst_inventories: refuri = base_url joined with the first model match, one iref_missing when the model "
    "has no match, one iref_ambiguous when several. Non-trivial: pattern contains '*' or '\\'; distinct by case."
)
ASSUMPTIONS = [
    "names and patterns contain no line breaks (inventory names are single-line by construction of the file format)",
    "inv: link targets are written with URL-safe characters [A-Za-z0-9._-] and '*', so that markdown-it's "
    "link normalisation is the identity on them",
    "domain names contain no ':' (the Sphinx in-memory key is 'domain:type')",
]
FLOOR = {"quick": 2000, "thorough": 50000}

_known = None


def known() -> Known:
    global _known
    if _known is None:
        _known = Known(PROPERTY)
    return _known


# ------------------------------------------------------------------ reference model


def ref_tokens(pat: str):
    toks = []
    i = 0
    while i < len(pat):
        c = pat[i]
        if c == "\\" and i + 1 < len(pat) and pat[i + 1] == "*":
            toks.append("L*")
            i += 2
        elif c == "*":
            toks.append("S")
            i += 1
        else:
            toks.append("L" + c)
            i += 1
    return toks


def ref_match(name: str, pat: str | None) -> bool:
    if pat is None:
        return True
    toks = ref_tokens(pat)
    # DP over positions reachable in `name`
    cur = {0}
    n = len(name)
    for t in toks:
        if t == "S":
            if not cur:
                break
            m = min(cur)
            cur = set(range(m, n + 1))
        else:
            ch = t[1:]
            cur = {p + 1 for p in cur if p < n and name[p] == ch}
        if not cur:
            return False
    return n in cur


def _sig_for_pair(pat: str, name: str) -> str:
    return "C19:match-differs"


def check_pair(acc, pat: str, name: str) -> list[dict]:
    from myst_parser.inventory import match_with_wildcard

    mk = (acc or Acc(PROPERTY, "replay")).violation
    exp = ref_match(name, pat)
    try:
        got = match_with_wildcard(name, pat)
    except Exception as exc:  # noqa: BLE001
        return [mk(f"C19:match-raises:{type(exc).__name__}", [pat, name], exp, f"{type(exc).__name__}: {exc}")]
    if acc is not None:
        acc.case((pat, name), "*" in pat or "\\" in pat, ["match" if exp else "nomatch"],
                 sample={"pattern": pat, "name": name, "matches": exp})
    if got != exp:
        return [mk(_sig_for_pair(pat, name), [pat, name], exp, got)]
    return []


ALPHA = "ab*\\.["


def sub_pairs_enum(acc, shard, nshards, tier, seed):
    maxlen = 4 if tier == "quick" else 5
    strings = [""]
    for n in range(1, maxlen + 1):
        strings += ["".join(t) for t in itertools.product(ALPHA, repeat=n)]
    kn = known()
    for i, pat in enumerate(strings):
        if i % nshards != shard:
            continue
        for name in strings:
            for v in check_pair(acc, pat, name):
                if kn.matches(v):
                    acc.known_hits[v["signature"]] += 1
                elif len(acc.violations) < 8 and all(v["signature"] != w["signature"] for w in acc.violations):
                    acc.violations.append(v)
    acc.exhaustive = True
    acc.extra["enumerated_pair_max_length"] = maxlen


chars = st.sampled_from(list("abcXYZ019 ._-*\\[](){}+?^$|/:é中") + ["*", "*", "\\"])
pat_st = st.text(alphabet=chars, max_size=10)


@st.composite
def pair_st(draw):
    pat = draw(pat_st)
    k = draw(st.integers(0, 3))
    if k == 0:
        name = draw(st.text(alphabet=chars, max_size=12))
    else:
        # derive a name from the pattern so that matches are frequent
        out = []
        for t in ref_tokens(pat):
            if t == "S":
                out.append(draw(st.text(alphabet=chars, max_size=3)))
            else:
                out.append(t[1:])
        name = "".join(out)
        if k == 3 and name:
            i = draw(st.integers(0, len(name) - 1))
            name = name[:i] + draw(chars) + name[i + 1:]
    return [pat, name]


def sub_pairs_random(acc, shard, nshards, tier, seed):
    n = 1500 if tier == "quick" else 60000
    hyp_run(acc, pair_st(), lambda c: check_pair(acc, c[0], c[1]), max_examples=n,
            seed=shard_seed(seed, shard), is_known=known().matches)


# ------------------------------------------------------------------ filter_inventories

ident = st.text(alphabet=st.sampled_from("abcAB1._-*\\ é"), min_size=1, max_size=5)
dom_st = st.sampled_from(["py", "std", "c", "p*", "a.b"])
typ_st = st.sampled_from(["function", "module", "label", "f*n", "a:b", "T", "a:b", "directive:option", "a"])


@st.composite
def inv_st(draw):
    objs: dict = {}
    for _ in range(draw(st.integers(0, 6))):
        d = draw(dom_st)
        t = draw(typ_st)
        n = draw(ident)
        objs.setdefault(d, {}).setdefault(t, {})[n] = {
            "loc": draw(st.sampled_from(["a.html#x", "b/c.html", "#y", ""])),
            "text": draw(st.sampled_from([None, None, "Title", "a b"])),
        }
    return {"name": draw(st.sampled_from(["P", "", "My proj"])), "version": draw(st.sampled_from(["1", "", "2.0"])),
            "base_url": None, "objects": objs}


def coord_filter(values):
    # (the empty pattern is a pattern, not an omitted one: it matches only an empty name)
    return st.one_of(st.none(), st.just("*"), st.just(""), values, values.map(lambda v: v[:1] + "*"),
                     values.map(lambda v: "*" + v[-1:]), values.map(lambda v: v.replace("*", "\\*")), pat_st,
                     # each coordinate is matched on its own: a pattern that is only one side of a ':' inside a type
                     # ('b' for the type 'a:b'), or that reaches across the domain / type boundary ('py:a'), matches nothing
                     values.map(lambda v: v.rsplit(":", 1)[-1]), values.map(lambda v: v.split(":", 1)[0]),
                     values.map(lambda v: v + ":a"), values.map(lambda v: "*:" + v[-1:]))


@st.composite
def filter_case(draw):
    invs = {}
    for key in draw(st.lists(st.sampled_from(["k", "key2", "x*", "a b"]), min_size=1, max_size=3, unique=True)):
        invs[key] = draw(inv_st())
    all_d = sorted({d for i in invs.values() for d in i["objects"]}) or ["py"]
    all_t = sorted({t for i in invs.values() for dd in i["objects"].values() for t in dd}) or ["x"]
    all_n = sorted({n for i in invs.values() for dd in i["objects"].values() for tt in dd.values() for n in tt}) or ["x"]
    return {
        "inventories": invs,
        "invs": draw(coord_filter(st.sampled_from(sorted(invs)))),
        "domains": draw(coord_filter(st.sampled_from(all_d))),
        "otypes": draw(coord_filter(st.sampled_from(all_t))),
        "targets": draw(coord_filter(st.sampled_from(all_n))),
    }


def model_filter(case):
    out = []
    for key, inv in case["inventories"].items():
        if not ref_match(key, case["invs"]):
            continue
        for d, dd in inv["objects"].items():
            if not ref_match(d, case["domains"]):
                continue
            for t, tt in dd.items():
                if not ref_match(t, case["otypes"]):
                    continue
                for n, item in tt.items():
                    if ref_match(n, case["targets"]):
                        out.append((key, d, t, n, inv["name"], inv["version"], inv["base_url"], item["loc"],
                                    item["text"]))
    return out


def _trailing_bs(case) -> bool:
    for k in ("invs", "domains", "otypes", "targets"):
        p = case[k]
        if p and (len(p) - len(p.rstrip("\\"))) % 2 == 1:
            return True
    return False


def check_filter(acc, case) -> list[dict]:
    from myst_parser import inventory

    mk = (acc or Acc(PROPERTY, "replay")).violation
    exp = model_filter(case)
    kw = {k: case[k] for k in ("invs", "domains", "otypes", "targets")}
    vs = []
    got = [(m.inv, m.domain, m.otype, m.name, m.project, m.version, m.base_url, m.loc, m.text)
           for m in inventory.filter_inventories(case["inventories"], **kw)]
    sig_suffix = ""
    if got != exp:
        kind = "order" if sorted(map(repr, got)) == sorted(map(repr, exp)) else "content"
        vs.append(mk(f"C19:filter-inventories-{kind}{sig_suffix}", case, exp, got))
    sph = {k: inventory.to_sphinx(v) for k, v in case["inventories"].items()}
    got2 = [(m.inv, m.domain, m.otype, m.name, m.project, m.version, m.base_url, m.loc, m.text)
            for m in inventory.filter_sphinx_inventories(sph, **kw)]
    # to_sphinx merges 'd:t' keys: with otype 'a:b' and domain names without ':' the split is unambiguous
    if got2 != exp:
        kind = "order" if sorted(map(repr, got2)) == sorted(map(repr, exp)) else "content"
        vs.append(mk(f"C19:filter-sphinx-inventories-{kind}{sig_suffix}", case, exp, got2))
    if acc is not None:
        pats = [p for p in kw.values() if p]
        acc.case(case, any("*" in p or "\\" in p for p in pats),
                 [f"matches:{min(len(exp), 3)}"], sample={**kw, "n_matches": len(exp)})
    return vs


def sub_filter(acc, shard, nshards, tier, seed):
    n = 500 if tier == "quick" else 15000
    hyp_run(acc, filter_case(), lambda c: check_filter(acc, c), max_examples=n,
            seed=shard_seed(seed, shard, 11), is_known=known().matches)


# ------------------------------------------------------------------ inv: links

safe_ident = st.text(alphabet=st.sampled_from("abcAB1._-"), min_size=1, max_size=5)


def safe_pat(values):
    return st.one_of(values, values.map(lambda v: v[:1] + "*"), values.map(lambda v: "*" + v[-1:]), st.just("*"),
                     st.just("nomatch"), st.just("a*b*"))


@st.composite
def link_case(draw):
    invs = {}
    for key in draw(st.lists(st.sampled_from(["k", "key2", "o.b"]), min_size=1, max_size=2, unique=True)):
        objs: dict = {}
        for _ in range(draw(st.integers(1, 5))):
            d = draw(st.sampled_from(["py", "std", "c"]))
            t = draw(st.sampled_from(["function", "module", "label"]))
            n = draw(safe_ident)
            objs.setdefault(d, {}).setdefault(t, {})[n] = {
                "loc": draw(st.sampled_from(["a.html#x", "b/c.html", "#y", "/abs.html", "d.html#$"])),
                "text": draw(st.sampled_from([None, None, "Title", "a b"])),
            }
        invs[key] = {"name": draw(st.sampled_from(["P", "Q r"])), "version": draw(st.sampled_from(["1", "2.0"])),
                     "base_url": draw(st.sampled_from(["https://e.org/doc", "https://e.org/doc/", "", "rel/path"])),
                     "objects": objs}
    # a second key that names the *same file* under another base URL (e.g. 'stable' and 'latest' of one project)
    aliases = []
    if draw(st.integers(0, 2)) == 0:
        aliases.append(["zz", draw(st.sampled_from(sorted(invs))), draw(st.sampled_from(["https://other.org/v2/", "https://e.org/latest"]))])
    all_d = sorted({d for i in invs.values() for d in i["objects"]})
    all_t = sorted({t for i in invs.values() for dd in i["objects"].values() for t in dd})
    all_n = sorted({n for i in invs.values() for dd in i["objects"].values() for tt in dd.values() for n in tt})
    keys_for_links = sorted(invs) + [a[0] for a in aliases]
    links = []
    for _ in range(draw(st.integers(1, 4))):
        depth = draw(st.integers(0, 3))  # how many of inv/domain/type are given
        parts = []
        if depth >= 1:
            parts.append(draw(st.one_of(*([safe_pat(st.sampled_from(keys_for_links))] * 7 + [st.just("")]))))
        if depth >= 2:
            parts.append(draw(st.one_of(*([safe_pat(st.sampled_from(all_d))] * 7 + [st.just("")]))))
        if depth >= 3:
            parts.append(draw(st.one_of(*([safe_pat(st.sampled_from(all_t))] * 7 + [st.just("")]))))
        target = draw(safe_pat(st.sampled_from(all_n)))
        spelling = draw(st.sampled_from(["explicit", "empty", "auto"]))
        links.append({"path": parts, "target": target, "spelling": spelling})
    if draw(st.booleans()):
        # the same destination a second time (each occurrence is a link of its own: own reference, own warnings)
        again = dict(draw(st.sampled_from(links)))
        again["spelling"] = draw(st.sampled_from(["explicit", "empty", "auto"]))
        links.insert(draw(st.integers(0, len(links))), again)
    return {"inventories": invs, "links": links, "aliases": aliases}


def write_inventory(path: str, inv: dict) -> None:
    lines = []
    for d, dd in inv["objects"].items():
        for t, tt in dd.items():
            for n, item in tt.items():
                lines.append(f"{n} {d}:{t} 1 {item['loc']} {item['text'] or '-'}\n")
    data = (f"# Sphinx inventory version 2\n# Project: {inv['name']}\n# Version: {inv['version']}\n"
            "# The remainder of this file is compressed using zlib.\n").encode() + zlib.compress("".join(lines).encode())
    with open(path, "wb") as fh:
        fh.write(data)


_PROC_DIR = {}


def _process_dir() -> str:
    """One directory per worker process: the inventory files keep their paths while their content changes from case to
    case, as an objects.inv does that is regenerated between two builds in one process."""
    pid = os.getpid()
    if pid not in _PROC_DIR:
        from multiprocessing import util

        d = tempfile.mkdtemp(prefix="verif-c19p-")
        _PROC_DIR.clear()
        _PROC_DIR[pid] = d
        util.Finalize(None, shutil.rmtree, args=(d, True), exitpriority=1)
        import atexit

        atexit.register(shutil.rmtree, d, True)
    return _PROC_DIR[pid]


def check_links(acc, case) -> list[dict]:
    from docutils import nodes

    mk = (acc or Acc(PROPERTY, "replay")).violation
    tmp = _process_dir()
    try:
        conf = {}
        loaded = {}
        for key, inv in case["inventories"].items():
            p = os.path.join(tmp, f"{key}.inv")
            write_inventory(p, inv)
            conf[key] = (inv["base_url"], p)
            # what the file means (the '$' shorthand is expanded by the loader; C18 covers loading)
            objs = {d: {t: {n: {"loc": (it["loc"][:-1] + n) if it["loc"].endswith("$") else it["loc"],
                                 "text": it["text"]} for n, it in tt.items()} for t, tt in dd.items()}
                    for d, dd in inv["objects"].items()}
            loaded[key] = {**inv, "objects": objs}
        for new_key, old_key, base_url in case.get("aliases") or []:
            conf[new_key] = (base_url, conf[old_key][1])
            loaded[new_key] = {**loaded[old_key], "base_url": base_url}
        paras = []
        for i, ln in enumerate(case["links"]):
            href = "inv:" + ":".join(ln["path"]) + "#" + ln["target"]
            if ln["spelling"] == "explicit":
                paras.append(f"M{i} [text{i}]({href})")
            elif ln["spelling"] == "empty":
                paras.append(f"M{i} []({href})")
            else:
                paras.append(f"M{i} <{href}>")
        text = "\n\n".join(paras) + "\n"
        doctree, warn = front.docutils_publish(text, settings={"myst_inventories": conf})
    finally:
        for name in os.listdir(tmp):
            os.unlink(os.path.join(tmp, name))
    wl = [w for w in front.warning_lines(warn) if "[myst." in w]
    vs = []
    paragraphs = [p for p in doctree.findall(nodes.paragraph) if p.astext().startswith("M") and
                  isinstance(p.parent, nodes.document)]
    if len(paragraphs) != len(case["links"]):
        return [mk("C19:link-paragraph-count", case, len(case["links"]), len(paragraphs))]
    nontrivial = False
    for i, (ln, para) in enumerate(zip(case["links"], paragraphs)):
        lineno = 1 + 2 * i
        parts = ln["path"] + [None] * (3 - len(ln["path"]))
        f = {"inventories": loaded, "invs": parts[0] or None, "domains": parts[1] or None,
             "otypes": parts[2] or None, "targets": ln["target"]}
        # an empty path component means "not given" (render_link_inventory passes '' through as a pattern,
        # and '' as a pattern matches only the empty string) -> model both readings explicitly:
        f = {"inventories": loaded, "invs": parts[0], "domains": parts[1], "otypes": parts[2],
             "targets": ln["target"]}
        if any(p == "" for p in ln["path"]):
            # statement is silent on an empty coordinate ('inv::py#x'); skip (counted)
            if acc is not None:
                acc.unspecified["empty-path-component"] += 1
            continue
        exp = model_filter(f)
        refs = [r for r in para.findall(nodes.reference)]
        mine = [w for w in wl if w.startswith(f"<string>:{lineno}:")]
        missing = [w for w in mine if "[myst.iref_missing]" in w]
        ambiguous = [w for w in mine if "[myst.iref_ambiguous]" in w]
        if "*" in ln["target"] or any("*" in p for p in ln["path"]):
            nontrivial = True
        if not exp:
            if len(missing) != 1 or refs:
                vs.append(mk("C19:inv-link-no-match-not-warned-once", case, "1 iref_missing, no reference",
                             {"warnings": mine, "refs": len(refs)}))
            continue
        if missing:
            vs.append(mk("C19:inv-link-spurious-missing", case, exp[0][:4], mine))
            continue
        if len(refs) != 1:
            vs.append(mk("C19:inv-link-reference-count", case, 1, len(refs)))
            continue
        first = exp[0]
        base, loc = first[6], first[7]
        want = posixpath.join(base, loc) if base else loc
        if refs[0].get("refuri") != want:
            vs.append(mk("C19:inv-link-wrong-uri", case, want, refs[0].get("refuri")))
        if (len(exp) > 1) != (len(ambiguous) == 1) or len(ambiguous) > 1:
            vs.append(mk("C19:inv-link-ambiguity-warning-count", case, int(len(exp) > 1), mine))
        if ln["spelling"] == "explicit" and refs[0].astext() != f"text{i}":
            vs.append(mk("C19:inv-link-explicit-text-lost", case, f"text{i}", refs[0].astext()))
        if ln["spelling"] != "explicit":
            want_text = first[8] or first[3]
            if refs[0].astext() != want_text:
                vs.append(mk("C19:inv-link-implicit-text", case, want_text, refs[0].astext()))
    if acc is not None:
        acc.case(case, nontrivial, ["links"], sample={"links": case["links"],
                                                      "inventory_keys": sorted(case["inventories"])})
    out, seen = [], set()
    for v in vs:
        if v["signature"] not in seen:
            seen.add(v["signature"])
            out.append(v)
    return out


def sub_links(acc, shard, nshards, tier, seed):
    n = 200 if tier == "quick" else 2500
    hyp_run(acc, link_case(), lambda c: check_links(acc, c), max_examples=n,
            seed=shard_seed(seed, shard, 13), is_known=known().matches)


def plan(tier):
    return [Sub("pairs_enum", sub_pairs_enum, 16), Sub("pairs_random", sub_pairs_random, 8),
            Sub("filter", sub_filter, 8), Sub("links", sub_links, 16)]


def replay(sub, input):
    if sub.startswith("pairs"):
        return check_pair(None, input[0], input[1])
    if sub == "filter":
        return check_filter(None, input)
    return check_links(None, input)
