"""C15 - output depends only on document and config: no leakage across parses / workers."""

from __future__ import annotations

import hashlib
import copy
import io
import json
import os
import pickle
import re
import shutil
import tempfile

import hypothesis
from hypothesis import strategies as st

from vlib import front, mdgen
from vlib.core import Acc, HarnessError, Sub, digest, shard_seed
from vlib.findings import Known

PROPERTY = "C15"
RULE = (
    "(history) Hypothesis rule-based state machine: a pool of 3-8 generated (document, configuration) pairs per run, "
    "biased towards state-touching constructs (include with the MyST-only options, figure-md, substitutions incl. "
    "cycles and errors, eval-rst with 'role' / 'default-role', roles defined by the role directive, html_meta, "
    "footnotes, duplicate ids, heading anchors with duplicate titles, amsmath, front-matter overrides, inventory "
    "links); rules = parse(i) through the docutils publisher (fresh configuration per parse), parse(i) through the "
    "renderer with one *shared* MdParserConfig object per configuration (docutils histories), or parse(i) in one "
    "long-lived Sphinx application with shared configuration objects (Sphinx histories); up to 25 steps. Oracle: the output of every step (pformat of the doctree + warnings) equals the "
    "reference output of that pair computed in a *pristine process* - a fork of a server process that imported the "
    "packages but never parsed anything (one fresh fork per reference; Sphinx references in a fresh application). "
    "(pairs) every writer document x every observer document (and the writer again) with one shared configuration "
    "object, exhaustively; (parallel) generated Sphinx projects of 8-12 documents (cross-document links, includes, substitutions, "
    "footnotes, amsmath, per-document front matter) built with 1 read worker and with N in {2, 3, 4} read workers: "
    "every written .html file byte-identical, sorted warning lines equal. Non-trivial: a history of >= 3 parses over "
    ">= 2 distinct documents in which a state-touching document precedes another document, or a parallel build "
    "pair; distinct by history hash."
)
RULE += (' Writer documents include a per-file configuration with figure-md, and the deprecated top-level front-matter keys (each use owes its warning in every document).')
ASSUMPTIONS = [
    "the harness does not own the OS schedule: parallel reads are sampled through worker counts only (Sphinx chunks "
    "the documents itself)",
    "state that docutils itself keeps globally and that MyST does not write (e.g. roles registered by the rST 'role' "
    "directive live in docutils' registry by design) is charged to MyST only when the MyST output of *another* "
    "document changes; such documents use distinct role names so the registry itself is not the observable",
]
FLOOR = {"quick": 40, "thorough": 800}

_known = None


def known() -> Known:
    global _known
    if _known is None:
        _known = Known(PROPERTY)
    return _known


# --------------------------------------------------------------------------- pristine reference server


def _do_parse(req):
    """Executed in a pristine grandchild.  req: {"mode", "text", "cfg", "files", "docname"}"""
    mode = req["mode"]
    tmp = tempfile.mkdtemp(prefix="verif-c15-")
    try:
        for name, content in (req.get("files") or {}).items():
            with open(os.path.join(tmp, name), "w") as fh:
                fh.write(content)
        return run_mode(mode, req["text"], req["cfg"], tmp, None)
    finally:
        shutil.rmtree(tmp, ignore_errors=True)


def normalise(out: str, tmp: str) -> str:
    out = out.replace(tmp, "<tmp>")
    return re.sub(r"/tmp/verif-sphinx-[a-z0-9_]+", "<sphinx>", out)


def run_mode(mode, text, cfg, tmp, shared):
    """-> normalised output string.  shared: dict of long-lived objects for the in-process variants (None = make fresh)."""
    from myst_parser.config.main import MdParserConfig

    if mode == "docutils":
        settings = {"myst_" + k: v for k, v in cfg.items()}
        doc, warn = front.docutils_publish(text, source_path=os.path.join(tmp, "main.md"), settings=settings)
        return normalise(doc.pformat() + "\n--\n" + warn, tmp)
    if mode == "shared":
        from docutils.frontend import get_default_settings
        from docutils.utils import new_document

        from myst_parser.mdit_to_docutils.base import DocutilsRenderer
        from myst_parser.parsers.docutils_ import Parser
        from myst_parser.parsers.mdit import create_md_parser

        key = json.dumps(cfg, sort_keys=True)
        if shared is not None:
            config = shared.setdefault("configs", {}).setdefault(key, None) or MdParserConfig(**cfg)
            shared["configs"][key] = config
        else:
            config = MdParserConfig(**cfg)
        stream = io.StringIO()
        st_ = get_default_settings(Parser)
        for k, v in front.base_settings(stream).items():
            setattr(st_, k, v)
        document = new_document(os.path.join(tmp, "main.md"), st_)
        md = create_md_parser(config, DocutilsRenderer)
        md.options["document"] = document
        md.render(text)
        return normalise(document.pformat() + "\n--\n" + stream.getvalue(), tmp)
    if mode == "settings":
        # the docutils way of passing a configuration is a settings object: one object per configuration, reused for
        # every document parsed with it (Parser.parse + the standalone reader's and the parser's transforms)
        from docutils.frontend import get_default_settings
        from docutils.readers.standalone import Reader
        from docutils.utils import new_document
        from docutils.writers.null import Writer

        from myst_parser.parsers.docutils_ import Parser

        key = json.dumps(cfg, sort_keys=True)
        pool = shared.setdefault("settings", {}) if shared is not None else {}
        st_ = pool.get(key)
        stream = io.StringIO()
        if st_ is None:
            st_ = get_default_settings(Parser, Reader, Writer)
            for k, v in front.base_settings(stream).items():
                setattr(st_, k, v)
            for k, v in cfg.items():
                setattr(st_, "myst_" + k, copy.deepcopy(v))
            pool[key] = st_
        st_.warning_stream = stream
        document = new_document(os.path.join(tmp, "main.md"), st_)
        parser = Parser()
        parser.parse(text, document)
        document.transformer.populate_from_components((Reader(), parser, Writer()))  # (as publish_doctree does)
        document.transformer.apply_transforms()
        return normalise(document.pformat() + "\n--\n" + stream.getvalue(), tmp)
    if mode == "sphinx":
        cfg2 = {k: v for k, v in cfg.items() if k not in ("suppress_warnings", "highlight_code_blocks", "inventories")}
        if shared is not None:
            proj = shared["sphinx"]
            key = json.dumps(cfg2, sort_keys=True)
            config = shared.setdefault("sconfigs", {}).get(key) or MdParserConfig(**cfg2)
            shared["sconfigs"][key] = config
            own = None
        else:
            own = proj = front.SphinxProject()
            config = MdParserConfig(**cfg2)
        try:
            for name in os.listdir(tmp):
                shutil.copy(os.path.join(tmp, name), os.path.join(proj.src, name))
            proj.app.env.myst_config = config
            doc, warn = proj.read_doc("doc", text)
            out = doc.pformat() + "\n--\n" + warn
            out = out.replace(proj.tmp, "<sphinx>")
            return normalise(out, tmp)
        finally:
            if own is not None:
                own.close()
    raise ValueError(mode)


class Pristine:
    """A server process forked before this worker parsed anything; every request is served by a fresh fork of it."""

    def __init__(self):
        import multiprocessing

        # import (but do not use) everything a parse needs, so that the forks are cheap and 'pristine' means 'never parsed'
        import docutils.core  # noqa: F401
        import sphinx.application  # noqa: F401

        import myst_parser.parsers.docutils_  # noqa: F401
        import myst_parser.parsers.sphinx_  # noqa: F401

        self.parent, child = multiprocessing.Pipe()
        self.pid = os.fork()
        if self.pid == 0:
            try:
                self.parent.close()
                while True:
                    try:
                        req = child.recv()
                    except EOFError:
                        break
                    if req is None:
                        break
                    r, w = os.pipe()
                    pid2 = os.fork()
                    if pid2 == 0:
                        os.close(r)
                        try:
                            res = ("ok", _do_parse(req))
                        except BaseException as exc:  # noqa: BLE001
                            res = ("exc", f"{type(exc).__name__}: {exc}")
                        with os.fdopen(w, "wb") as fh:
                            pickle.dump(res, fh)
                        os._exit(0)
                    os.close(w)
                    with os.fdopen(r, "rb") as fh:
                        data = fh.read()
                    os.waitpid(pid2, 0)
                    child.send(pickle.loads(data) if data else ("exc", "no result from the pristine process"))
            finally:
                os._exit(0)
        child.close()
        self.cache: dict = {}

    def reference(self, req):
        key = digest(req)
        if key not in self.cache:
            self.parent.send(req)
            self.cache[key] = self.parent.recv()
        return self.cache[key]

    def close(self):
        try:
            self.parent.send(None)
            os.waitpid(self.pid, 0)
        except Exception:  # noqa: BLE001
            pass


# --------------------------------------------------------------------------- documents

INC = {"inc.md": "# Included head\n\nincluded para [^inc]\n\n[^inc]: inc note\n\n![img](pic.png)\n", "inc2.md": "## Sub\n\n{{ key1 }}\n"}
STATEFUL = [
    "```{include} inc.md\n:heading-offset: 1\n:relative-images:\n```\n\n# After include\n",
    "```{include} inc2.md\n:relative-docs: docs/\n```\n",
    "```{figure-md}\n![alt](img.png)\n\nCaption text\n```\n\n<img src=\"x.png\">\n",
    "{{ key1 }} and {{ cyc }} and {{ missing }}\n\n{{ blockkey }}\n",
    "```{eval-rst}\n.. role:: rolea(emphasis)\n\n:rolea:`text`\n\n.. default-role:: math\n\n`x^2`\n```\n\nafter `code`\n",
    "```{role} roleb(strong)\n```\n\n{roleb}`bold`\n",
    "---\nmyst:\n  html_meta:\n    keywords: a, b\n  substitutions:\n    key1: from front matter\n  enable_extensions: [strikethrough, substitution]\n---\n# T\n\n{{ key1 }} ~~s~~\n",
    "[^a] [^b]\n\n[^b]: bee\n\n[^a]: ay\n\n[^c]: unused\n",
    "(tgt)=\n# Same\n\n# Same\n\n## Same\n\n(tgt)=\npara\n\n[](#same) [](#same-1) [](#tgt)\n",
    "\\begin{equation}\na = 1\n\\end{equation}\n\n\\begin{align}\nb &= 2\n\\end{align}\n\n$$\nc\n$$ (lbl)\n",
    "<inv:#dup*> <inv:#nosuch> <inv:good#other>\n",
    "```{code-block} python\n:emphasize-lines: 1\nx = 1\n```\n\n```{highlight} c\n```\n\n```\nplain\n```\n",
    "---\nmyst:\n  heading_anchors: 3\n  url_schemes: [wiki]\n---\n# A\n\n[w](wiki:x) [h](http://e.org)\n",
    "```{contents}\n```\n\n# One\n\n## Two\n",
    "{#id1}\npara\n\n{#id1}\npara two\n\n[x]{#id1}\n",
    # links of a url scheme that carries classes, with classes / ids of their own (attrs_inline)
    "[a](x:page){.special #lk} and [b](wiki:Fish){.w2 .w3} then [c](x:other) <wiki:Auto>\n",
    # HTML that ends inside a construct (unterminated tag, comment, script, entity), as block and inline
    "<div class=\"admonition\n\npara after unterminated tag\n\n<img src=\"o.png\">\n",
    "<!-- unterminated comment\n\npara after comment\n",
    "<script>\nunclosed script\n\npara after script\n",
    "text &am\n\n<\n\n<img src=\"a.png\" alt=\"unterminated\n",
    "<div class=\"admonition note\">\n<p class=\"title\">T</p>\ninner *md* <b>\n</div>\n\n<img src=\"b.png\" class=\"c\" alt>\n",
    # a per-file configuration (any front matter) in a document whose directive switches an extension on for its own body
    "---\nmyst:\n  title_to_header: true\n---\n# FM\n\n```{figure-md}\n![alt](img.png)\n\nCaption\n```\n\n<img src=\"raw.png\">\n",
    # the deprecated top-level spellings of two front-matter keys: each use is reported, in every document
    "---\nsubstitutions:\n  key1: top-level value\nhtml_meta:\n  keywords: k\n---\n# Dep\n\n{{ key1 }}\n",
    "---\nhtml_meta:\n  description: d\n---\npara\n",
    # per-file footnote options: they are handed to the transforms through the settings object
    "---\nmyst:\n  footnote_sort: false\n  footnote_transition: false\n---\nx [^b] [^a]\n\n[^a]: A\n\n[^b]: B\n\nafter\n",
    "---\nmyst:\n  footnote_transition: false\n---\nx [^k]\n\n[^k]: K\n",
    # the default role selected by a directive of this document ends with the document (as in docutils' own parser)
    "```{default-role} emphasis\n```\n\n```{eval-rst}\nrst `x` text\n```\n",
]


INV_URLS = ["https://e.org/", "https://other.org/v2/"]

# documents whose rendering would change if state leaked from another parse
OBSERVERS = [
    "<img src=\"o.png\" alt=\"a\">\n\n<div class=\"admonition\">\nx\n</div>\n",      # html_image / html_admonition switched on by someone else
    "plain `code`\n\n```{eval-rst}\nrst `interpreted` text and *emphasis*\n```\n",                # default role changed elsewhere
    "# Same\n\n## Sub\n\n[](#same) [](#same-1) [](#included-head) ![i](pic.png)\n",          # slug table, heading offset, relative-images
    "{{ key1 }} {{ cyc }}\n\n[^a] [^inc]\n\n[r][ref1] [ref1]\n",                             # substitution context, footnotes, reference definitions
    "\\begin{equation}\nz\n\\end{equation}\n\n$$\ny\n$$ (lbl)\n\n[](#lbl) <inv:#other>\n",    # equation labels / numbering, inventories
    "~~strike~~ and www.e.org and (c) and - [ ] task\n\nTerm\n: def\n",                       # extensions enabled by another document's front matter
    "[c](x:obs) and <wiki:Obs> and [d](wiki:D){.own}\n",                                          # classes accumulated on a url scheme
    "<img src=\"o2.png\" alt=\"obs\">\n\n<div class=\"admonition tip\">\n<p>obs body</p>\n</div>\n\npara <img src=\"i.png\"> inline\n",  # HTML tokenizer state
    "---\nsubstitutions:\n  key1: observer value\n---\n{{ key1 }}\n",                   # a warning owed to every document that uses the deprecated key
    "x [^b] [^a]\n\n[^a]: A\n\n[^b]: B\n\nafter the definitions\n",                       # footnote sorting / transition selected by another document
]


def pair_st():
    def mk_doc(stateful, blocks, cfg):
        parts = []
        if stateful is not None:
            parts.append(STATEFUL[stateful])
        if blocks:
            body = mdgen.render(blocks)
            if stateful is not None and STATEFUL[stateful].startswith("---"):
                parts.append(body)
            else:
                parts.insert(0 if stateful is None else len(parts), body)
        return {"text": "\n".join(parts), "cfg": cfg, "stateful": stateful is not None}

    def mk_obs(k, cfg):
        return {"text": OBSERVERS[k], "cfg": cfg, "stateful": False}

    cfg = mdgen.config_st(allow_modes=False)
    return st.one_of(
        st.builds(mk_doc, st.one_of(st.none(), st.integers(0, len(STATEFUL) - 1), st.integers(0, len(STATEFUL) - 1)),
                  st.one_of(st.just([]), mdgen.blocks_st(mdgen.FULL - {"hr"}, wild=False, max_blocks=3)), cfg),
        st.builds(mk_obs, st.integers(0, len(OBSERVERS) - 1), cfg))


def clean_cfg(cfg):
    cfg = dict(cfg)
    cfg["enable_extensions"] = sorted(set(cfg.get("enable_extensions", [])) | {"substitution", "amsmath", "dollarmath", "attrs_block",
                                                                                 "attrs_inline"})
    cfg.setdefault("substitutions", {})
    cfg["substitutions"] = {"key1": "value *1*", "blockkey": "- a\n- b", "cyc": "{{ cyc }}", **cfg["substitutions"]}
    # url schemes in every documented form, two of them carrying classes
    cfg["url_schemes"] = {"http": None, "https": None, "x": {"url": "https://x.org/{{path}}", "title": "X {{path}}", "classes": ["xc"]},
                          "wiki": {"url": "https://w.org/{{path}}#{{fragment}}", "classes": ["w1"]}, "mailto": None}
    return cfg


# --------------------------------------------------------------------------- the state machine


def _snapshot_docutils_registries():
    from docutils.parsers.rst import directives as _d, roles as _r

    return dict(_d._directives), dict(_r._roles), dict(_r._role_registry)


def _restore_docutils_registries(snap):
    """docutils keeps roles / directives registered by a document (role directive, default-role) in module-level
    registries for the life of the process; examples must not see what earlier examples registered."""
    from docutils.parsers.rst import directives as _d, roles as _r

    for reg, saved in ((_d._directives, snap[0]), (_r._roles, snap[1]), (_r._role_registry, snap[2])):
        reg.clear()
        reg.update(saved)


def sub_history(acc, shard, nshards, tier, seed):
    _history(acc, shard, nshards, tier, seed, ("docutils", "shared", "settings"))


def sub_history_sphinx(acc, shard, nshards, tier, seed):
    _history(acc, shard, nshards, tier, seed, ("sphinx",))


def _history(acc, shard, nshards, tier, seed, modes):
    from hypothesis import HealthCheck, Phase, settings
    from hypothesis.stateful import RuleBasedStateMachine, initialize, invariant, precondition, rule, run_state_machine_as_test

    pristine = Pristine()          # forked before anything is parsed in this worker
    # (a live Sphinx application replaces docutils' global directive registry, so standalone docutils parses are not
    # mixed into the same process: that would test Sphinx, not MyST)
    shared: dict = {}
    snapshot = _snapshot_docutils_registries()
    found: list = []
    mkv = acc.violation
    kn = known()
    inv_dir = tempfile.mkdtemp(prefix="verif-c15-inv-")
    from checks.c14_warnings import write_inventory

    write_inventory(inv_dir)

    class Machine(RuleBasedStateMachine):
        def __init__(self):
            super().__init__()
            self.pool = []
            self.history = []
            self.tmp = tempfile.mkdtemp(prefix="verif-c15-")
            # every example starts from fresh in-process state, so that an example is a pure function of its own history
            shared.clear()
            _restore_docutils_registries(snapshot)
            if "sphinx" in modes:
                shared["sphinx"] = front.SphinxProject()
            for name, content in INC.items():
                with open(os.path.join(self.tmp, name), "w") as fh:
                    fh.write(content)

        @initialize(pool=st.lists(pair_st(), min_size=3, max_size=8), ncfg=st.integers(1, 3))
        def setup(self, pool, ncfg):
            # only 1-3 distinct configurations per run, so that different documents really share one configuration object
            cfgs = [clean_cfg(p["cfg"]) for p in pool[:ncfg]]
            # (the configurations share one inventory *file* but name it under different base URLs)
            self.pool = [{**p, "cfg": cfgs[j % len(cfgs)], "inv_url": INV_URLS[(j % len(cfgs)) % len(INV_URLS)]} for j, p in enumerate(pool)]

        def _step(self, mode, i):
            p = self.pool[i % len(self.pool)]
            cfg = dict(p["cfg"])
            if mode != "sphinx":
                cfg["inventories"] = {"good": [p["inv_url"], os.path.join(inv_dir, "objects.inv")]}
            self.history.append((mode, i % len(self.pool)))
            req = {"mode": mode, "text": p["text"], "cfg": cfg, "files": INC}
            status, ref = pristine.reference(req)
            try:
                out = run_mode(mode, p["text"], cfg, self.tmp, shared)
                got = ("ok", out)
            except Exception as exc:  # noqa: BLE001
                got = ("exc", f"{type(exc).__name__}: {exc}")
            if status == "exc" and got[0] == "exc":
                acc.excluded["raises-in-both (C01)"] += 1
                return
            hist = list(self.history)
            distinct = len({h[1] for h in hist})
            stateful_before = any(self.pool[h[1]]["stateful"] for h in hist[:-1] if h[1] != hist[-1][1])
            acc.case(digest([hist, [q["text"] for q in self.pool], [q["cfg"] for q in self.pool]]),
                     len(hist) >= 3 and distinct >= 2 and stateful_before, [f"mode:{mode}", f"steps:{min(len(hist), 10)}"],
                     sample={"history": hist[-8:], "last_document": p["text"][:300]})
            if got != (status, ref):
                a, b = ref if status == "ok" else "EXC " + ref, got[1] if got[0] == "ok" else "EXC " + got[1]
                k = next((j for j in range(min(len(a), len(b))) if a[j] != b[j]), min(len(a), len(b)))
                v = mkv(f"C15:output-differs-from-pristine:{mode}",
                        {"history": hist, "pool": [{"text": q["text"], "cfg": q["cfg"], "inv_url": q["inv_url"]} for q in self.pool]},
                        a[max(0, k - 200):k + 300], b[max(0, k - 200):k + 300])
                if kn.matches(v):
                    acc.known_hits[v["signature"]] += 1
                else:
                    found.append(v)
                    raise AssertionError(v["signature"])

        @precondition(lambda self: "docutils" in modes)
        @rule(i=st.integers(0, 7))
        def parse_docutils(self, i):
            self._step("docutils", i)

        @precondition(lambda self: "shared" in modes)
        @rule(i=st.integers(0, 7))
        def parse_shared_config(self, i):
            self._step("shared", i)

        @precondition(lambda self: "settings" in modes)
        @rule(i=st.integers(0, 7))
        def parse_reused_settings(self, i):
            self._step("settings", i)

        @precondition(lambda self: "sphinx" in modes)
        @rule(i=st.integers(0, 7))
        def parse_sphinx(self, i):
            self._step("sphinx", i)

        def teardown(self):
            shutil.rmtree(self.tmp, ignore_errors=True)
            if "sphinx" in shared:
                shared.pop("sphinx").close()

    n = 15 if tier == "quick" else 150
    try:
        run_state_machine_as_test(
            hypothesis.seed(shard_seed(seed, shard, 15))(Machine),
            settings=settings(max_examples=n, stateful_step_count=25, deadline=None, database=None, derandomize=False,
                              report_multiple_bugs=False, print_blob=False, verbosity=hypothesis.Verbosity.quiet,
                              phases=[Phase.generate, Phase.shrink],
                              suppress_health_check=[HealthCheck.too_slow, HealthCheck.data_too_large, HealthCheck.filter_too_much]))
    except AssertionError:
        if found:
            acc.violations.append(found[-1])   # the last one reported is the shrunk history
        else:
            raise
    except hypothesis.errors.Flaky:
        # the same history gave different outputs in two runs of this process: state outlives an example
        if found:
            v = dict(found[0])
            v["signature"] += ":not-reproducible-within-process"
            acc.violations.append(v)
        else:
            raise
    finally:
        pristine.close()
        if "sphinx" in shared:
            shared["sphinx"].close()
        shutil.rmtree(inv_dir, ignore_errors=True)


# --------------------------------------------------------------------------- parallel Sphinx builds


def make_project(draw_int, n_docs):
    """Deterministic project description from a small integer stream (draw_int(lo, hi))."""
    files = {}
    names = [f"doc{i}" for i in range(n_docs)]
    # sections (directories) whose pages write the same relative destinations, which name different files for each of them
    sections = ["s0", "s1", "s2", "s3"]
    for sec in sections:
        files[f"{sec}/intro.md"] = f"# Intro of {sec}\n\ntext of {sec}\n"
        files[f"{sec}/data.txt"] = f"data of {sec}\n"
        files[f"{sec}/page.md"] = (f"# Page of {sec}\n\n[](intro.md) and [t](intro.md#intro-of-{sec}) and [d](data.txt) and <project:intro.md> "
                                   f"and [up](../index.md)\n")
    toc = "\n".join(names + [f"{sec}/{p}" for sec in sections for p in ("intro", "page")])
    files["index.md"] = "# Index\n\n```{toctree}\n" + toc + "\n```\n"
    files["inc.md"] = INC["inc.md"]
    files["inc2.md"] = INC["inc2.md"]
    for i, nm in enumerate(names):
        parts = [f"# Title of {nm}\n"]
        if draw_int(0, 2) == 0:
            parts.insert(0, "---\nmyst:\n  substitutions:\n    key1: fm " + nm + "\n  heading_anchors: 2\n---\n")
        for _ in range(draw_int(2, 5)):
            k = draw_int(0, 9)
            other = names[draw_int(0, n_docs - 1)]
            if k == 0:
                parts.append(f"See [link]({other}.md) and [](./{other}.md#title-of-{other}) and <project:{other}.md>.\n")
            elif k == 1:
                parts.append("```{include} inc.md\n:heading-offset: 1\n```\n")
            elif k == 2:
                parts.append("{{ key1 }} text {{ nosuch }}\n")
            elif k == 3:
                parts.append(f"Note [^n{i}] here.\n\n[^n{i}]: footnote of {nm}\n")
            elif k == 4:
                parts.append("\\begin{equation}\na_" + str(i) + " = 1\n\\end{equation}\n")
            elif k == 5:
                parts.append(f"({nm}-target)=\n## Section of {nm}\n\n[](#{names[(i + 1) % n_docs]}-target) [missing](#nosuch-{i})\n")
            elif k == 6:
                parts.append("```{figure-md}\n![alt](img.png)\n\nCaption " + nm + "\n```\n")
            elif k == 7:
                parts.append("```{eval-rst}\n.. role:: r" + str(i) + "(emphasis)\n\n:r" + str(i) + ":`styled`\n```\n")
            elif k == 8:
                parts.append(f"$$\nx_{i}\n$$ (eq-{nm})\n\nsee {{eq}}`eq-{other}`\n")
            else:
                parts.append("## Same heading\n\ntext ~~strike~~ and {unknownrole}`x`\n")
        files[nm + ".md"] = "\n".join(parts)
    return files


def build_project(files, parallel):
    conf = {"myst_enable_extensions": ["substitution", "amsmath", "dollarmath", "strikethrough"],
            "myst_substitutions": {"key1": "global value"}, "myst_heading_anchors": 1}
    import multiprocessing

    # the check's own workers are daemonic pool processes, which may not fork; Sphinx' parallel read must fork
    me = multiprocessing.current_process()
    was_daemon = me._config.get("daemon")
    me._config["daemon"] = False
    try:
        return _build_project(conf, files, parallel)
    finally:
        me._config["daemon"] = was_daemon


def _build_project(conf, files, parallel):
    with front.sphinx_project(confoverrides=conf, files=files, parallel=parallel) as proj:
        warn = proj.build()
        out = {}
        for root, _dirs, fnames in os.walk(proj.out):
            for fn in fnames:
                if fn.endswith(".html"):
                    p = os.path.join(root, fn)
                    with open(p, "rb") as fh:
                        out[os.path.relpath(p, proj.out)] = hashlib.blake2b(fh.read(), digest_size=8).hexdigest()
        wl = sorted(ln.replace(proj.tmp, "<sphinx>") for ln in front.warning_lines(warn))
        return out, wl


def sub_parallel(acc, shard, nshards, tier, seed):
    import random  # a private, seeded generator: the project is a pure function of (seed, shard, k)

    n_pairs = 1 if tier == "quick" else 12
    mk = acc.violation
    kn = known()
    for k in range(n_pairs + 1):
        rng = random.Random(shard_seed(seed, shard, 1000 + k))
        n_docs = rng.randint(8, 12)
        if k == n_pairs:
            # one dense project per shard: every document uses every construct kind (in a rotated order), so that whatever
            # per-worker state exists is touched by every document of every chunk
            n_docs = 9   # (not 10: the draw (0, 9) must mean "construct kind" only)

            def dense(lo, hi, _state={"i": 0, "doc": -1, "left": 0}):
                st_ = _state
                if (lo, hi) == (0, 2):       # front matter? (first draw of a document)
                    st_["doc"] += 1
                    st_["left"] = -1
                    return st_["doc"] % 3
                if (lo, hi) == (2, 5):       # number of blocks -> all ten kinds
                    st_["left"] = 10
                    st_["i"] = st_["doc"]
                    return 10
                if (lo, hi) == (0, 9):
                    st_["i"] += 1
                    return st_["i"] % 10
                return rng.randint(lo, hi)

            files = make_project(dense, n_docs)
        else:
            files = make_project(lambda lo, hi: rng.randint(lo, hi), n_docs)
        workers = rng.choice([2, 3, 4])
        try:
            h1, w1 = build_project(files, 1)
            hn, wn = build_project(files, workers)
        except Exception as exc:  # noqa: BLE001
            # the generated projects are valid by construction: a build that raises is a harness problem, not a case to skip
            raise HarnessError(f"parallel sub-check: Sphinx build raised {type(exc).__name__}: {exc}") from exc
        case = {"files": files, "workers": workers}
        vs = []
        if h1 != hn:
            diff = sorted(f for f in set(h1) | set(hn) if h1.get(f) != hn.get(f))
            vs.append(mk("C15:parallel-build-output-differs", case, "byte-identical html files", {"differing": diff[:6], "workers": workers}))
        if w1 != wn:
            vs.append(mk("C15:parallel-build-warnings-differ", case, w1[:8], {"workers": workers, "warnings": wn[:8],
                                                                               "only_serial": [x for x in w1 if x not in wn][:4],
                                                                               "only_parallel": [x for x in wn if x not in w1][:4]}))
        for v in vs:
            if kn.matches(v):
                acc.known_hits[v["signature"]] += 1
            elif len(acc.violations) < 4:
                acc.violations.append(v)
        acc.case(("parallel", digest(files), workers), True, ["parallel", f"workers:{workers}", f"docs:{n_docs}"],
                 sample={"workers": workers, "documents": n_docs, "html_files": len(h1), "warnings": len(w1), "doc1": files["doc1.md"][:300]})


def sub_pairs(acc, shard, nshards, tier, seed):
    """Every (writer, observer) pair and every (writer, writer-again) pair, with one shared configuration object: parse
    the writer, then the second document; the second output must equal its pristine reference (exhaustive over the
    document tables; docutils renderer with a shared config object and docutils parser with a reused settings object in
    all shards, long-lived Sphinx app in addition)."""
    pristine = Pristine()
    snapshot = _snapshot_docutils_registries()
    mk = acc.violation
    kn = known()
    inv_dir = tempfile.mkdtemp(prefix="verif-c15-inv-")
    tmp = tempfile.mkdtemp(prefix="verif-c15-")
    from checks.c14_warnings import write_inventory

    write_inventory(inv_dir)
    for name, content in INC.items():
        with open(os.path.join(tmp, name), "w") as fh:
            fh.write(content)
    # two configurations: with the extensions that directives switch on for their own body already enabled (a leak of
    # those would be invisible), and without them
    base_cfgs = [clean_cfg({"enable_extensions": ["html_image", "html_admonition", "strikethrough", "colon_fence", "deflist", "tasklist"],
                            "heading_anchors": 2}),
                 clean_cfg({"enable_extensions": ["colon_fence"], "heading_anchors": 1})]
    seconds = [("obs", k, t) for k, t in enumerate(OBSERVERS)]
    modes = ["shared", "settings", "sphinx"] if shard % 2 == 0 else ["shared", "settings"]
    i = 0
    try:
        for mode in modes:
            for wi, wtext in enumerate(STATEFUL):
                for kind, k, otext in seconds + [("again", wi, wtext)]:
                  for base_cfg in base_cfgs:
                    i += 1
                    if i % nshards != shard:
                        continue
                    if mode == "sphinx" and tier == "quick" and (wi + k) % 3:
                        continue
                    cfg = dict(base_cfg)
                    ocfg = cfg
                    if mode != "sphinx":
                        cfg["inventories"] = {"good": [INV_URLS[0], os.path.join(inv_dir, "objects.inv")]}
                        ocfg = cfg
                        if (wi + k) % 2:
                            # every other pair: the second document's configuration names the same inventory file under
                            # another base URL (the two then do not share a configuration object)
                            ocfg = {**cfg, "inventories": {"good": [INV_URLS[1], os.path.join(inv_dir, "objects.inv")]}}
                    shared = {}
                    _restore_docutils_registries(snapshot)
                    if mode == "sphinx":
                        shared["sphinx"] = front.SphinxProject()
                    try:
                        status, ref = pristine.reference({"mode": mode, "text": otext, "cfg": ocfg, "files": INC})
                        try:
                            run_mode(mode, wtext, cfg, tmp, shared)
                        except Exception:  # noqa: BLE001
                            pass
                        try:
                            got = ("ok", run_mode(mode, otext, ocfg, tmp, shared))
                        except Exception as exc:  # noqa: BLE001
                            got = ("exc", f"{type(exc).__name__}: {exc}")
                    finally:
                        if "sphinx" in shared:
                            shared["sphinx"].close()
                    case = {"history": [[mode, 0], [mode, 1]], "pool": [{"text": wtext, "cfg": cfg, "inv_url": INV_URLS[0]},
                                                                        {"text": otext, "cfg": cfg, "inv_url": INV_URLS[0 if ocfg is cfg else 1]}]}
                    acc.case(("pairs", mode, wi, kind, k), True, [f"mode:{mode}", f"second:{kind}"],
                             sample={"mode": mode, "first": wtext[:120], "second": otext[:120]})
                    if got != (status, ref) and not (status == "exc" and got[0] == "exc"):
                        a, b = ref if status == "ok" else "EXC " + ref, got[1] if got[0] == "ok" else "EXC " + got[1]
                        j = next((x for x in range(min(len(a), len(b))) if a[x] != b[x]), min(len(a), len(b)))
                        v = mk(f"C15:output-differs-from-pristine:{mode}", case, a[max(0, j - 200):j + 300], b[max(0, j - 200):j + 300])
                        if kn.matches(v):
                            acc.known_hits[v["signature"]] += 1
                        elif len(acc.violations) < 4 and all(v["signature"] != x["signature"] for x in acc.violations):
                            acc.violations.append(v)
    finally:
        pristine.close()
        shutil.rmtree(inv_dir, ignore_errors=True)
        shutil.rmtree(tmp, ignore_errors=True)
    acc.exhaustive = True


def plan(tier):
    return [Sub("pairs", sub_pairs, 6), Sub("history", sub_history, 5), Sub("history_sphinx", sub_history_sphinx, 3),
            Sub("parallel", sub_parallel, 4)]


def replay(sub, input):
    acc = Acc(PROPERTY, sub)
    if sub == "parallel":
        h1, w1 = build_project(input["files"], 1)
        hn, wn = build_project(input["files"], input["workers"])
        vs = []
        if h1 != hn:
            vs.append(acc.violation("C15:parallel-build-output-differs", input, "identical", sorted(f for f in h1 if h1[f] != hn.get(f))[:6]))
        if w1 != wn:
            vs.append(acc.violation("C15:parallel-build-warnings-differ", input, w1[:6], wn[:6]))
        return vs
    # replay a history: fresh pristine server, fresh shared state
    pristine = Pristine()
    shared = {"sphinx": front.SphinxProject()} if any(m == "sphinx" for m, _i in input["history"]) else {}
    tmp = tempfile.mkdtemp(prefix="verif-c15-")
    inv_dir = tempfile.mkdtemp(prefix="verif-c15-inv-")
    try:
        from checks.c14_warnings import write_inventory

        write_inventory(inv_dir)
        for name, content in INC.items():
            with open(os.path.join(tmp, name), "w") as fh:
                fh.write(content)
        vs = []
        for mode, i in input["history"]:
            p = input["pool"][i]
            cfg = dict(p["cfg"])
            if mode != "sphinx":
                cfg["inventories"] = {"good": [p.get("inv_url", INV_URLS[0]), os.path.join(inv_dir, "objects.inv")]}
            status, ref = pristine.reference({"mode": mode, "text": p["text"], "cfg": cfg, "files": INC})
            try:
                got = ("ok", run_mode(mode, p["text"], cfg, tmp, shared))
            except Exception as exc:  # noqa: BLE001
                got = ("exc", f"{type(exc).__name__}: {exc}")
            if got != (status, ref) and not (status == "exc" and got[0] == "exc"):
                vs.append(acc.violation(f"C15:output-differs-from-pristine:{mode}", input, ref[:400], got[1][:400]))
                break
        return vs
    finally:
        pristine.close()
        if "sphinx" in shared:
            shared["sphinx"].close()
        shutil.rmtree(tmp, ignore_errors=True)
        shutil.rmtree(inv_dir, ignore_errors=True)
