"""C12 - Sphinx cross-document links resolve to the right URI or warn exactly once."""

from __future__ import annotations

import os
import posixpath
import re
from urllib.parse import unquote, urldefrag

from hypothesis import strategies as st

from vlib import front
from vlib.core import Acc, Sub, hyp_run, shard_seed
from vlib.findings import Known

PROPERTY = "C12"
RULE = (
    "Hypothesis-generated Sphinx projects: 3-8 Markdown documents in a directory tree of depth <= 3 (marker titles, "
    "2-4 headings each incl. titles repeated up to three times, base names that recur in several directories, an explicit '(label)=' before a heading), 1-3 non-document files, an "
    "index with a toctree; in every document a drawn set of links (each in its own one-line paragraph) to other "
    "documents in every spelling - relative path with extension, './' and '../' forms, leading '/' (source-root "
    "relative), without extension, '<project:...>' and '[t](project:...)', 'doc.md#heading-anchor' (incl. the "
    "second of two equal titles), project-wide '#label', non-document files as '[t](file)' and '<path:file>' - with "
    "explicit text (nested strong / emphasis / code) or empty text, plus missing documents, missing anchors and "
    "missing labels. Oracle (output-based, independent of the resolver): a full html build (basic theme, fresh "
    "application per project); for every generated link the <a> is located in the written page by its marker; its "
    "href, joined to the page's own path, must name an output file that exists - for documents that document's page, "
    "for anchors / labels with a fragment that is the id of the element that holds the expected heading (the k-th "
    "heading with that title), for files a copy of the file with identical bytes; link text = explicit text with its "
    "nested tags, or the target's title (document title, heading text, labelled section title, file path); a "
    "missing target gives exactly one myst.xref_missing warning naming the destination, located in the referencing "
    "file, and the explicit text is still rendered. Non-trivial: source and target in different directories, or an "
    "anchor / label / file target; distinct by (project, link)."
)
RULE += (" Documents may be named like a directory beside them ('d.md' next to 'd/'); a link naming only a directory is a missing target.")
ASSUMPTIONS = [
    "names are unique by construction, so myst.xref_ambiguous cannot arise; the text of an empty-text link to a "
    "missing target is unconstrained",
    "heading anchors use the default slug function over simple ASCII titles; the expected fragment is not predicted "
    "but validated against the written page (the id must sit on the element holding the expected heading)",
]
FLOOR = {"quick": 150, "thorough": 3000}

_known = None


def known() -> Known:
    global _known
    if _known is None:
        _known = Known(PROPERTY)
    return _known


def slugify(title):
    return re.sub(r"[^\w\- ]", "", title.lower()).replace(" ", "-")


# --------------------------------------------------------------------------- project generation

DIRS = ["", "a", "a/b", "a/b/c", "d", "d/e"]
TEXT_FORMS = ["plain", "strong", "em", "code", "mixed"]


@st.composite
def project_st(draw):
    n = draw(st.integers(3, 8))
    docs = []
    for i in range(n):
        d = draw(st.sampled_from(DIRS))
        heads = [f"Section one D{i}", draw(st.sampled_from([f"Other D{i}", "Common heading", f"Section one D{i}", f"\u00dcbersicht \u00e9 D{i}"])),
                 draw(st.sampled_from(["Common heading", f"Third D{i}", f"Section one D{i}"])),
                 draw(st.sampled_from(["Common heading", f"Section one D{i}"]))]
        heads = heads[:draw(st.integers(2, 4))]
        # base names may repeat across directories ('a/intro' next to 'intro'): extension-less links are relative to the page
        # ... and may equal the name of a directory next to them ('a.md' beside 'a/'): a directory is not a document
        base = draw(st.sampled_from([f"doc{i}", f"doc{i}", "intro", "guide", "a", "b", "d"]))
        name = posixpath.join(d, base) if d else base
        if any(x["name"] == name for x in docs):
            name = posixpath.join(d, f"doc{i}") if d else f"doc{i}"
        # (labels are linked as their author wrote them, capitals included)
        docs.append({"name": name, "title": f"Title D{i}", "heads": heads,
                     "label": f"Lab-D{i}" if i % 2 else f"lab-d{i}", "label_head": draw(st.integers(0, len(heads) - 1))})
    files = []
    for j in range(draw(st.integers(1, 3))):
        d = draw(st.sampled_from(DIRS))
        files.append({"path": posixpath.join(d, f"data{j}.txt") if d else f"data{j}.txt", "content": f"payload {j}\n"})
    links = []
    for k in range(draw(st.integers(4, 14))):
        src = draw(st.integers(0, n - 1))
        kind = draw(st.sampled_from(["doc", "doc", "doc", "anchor", "anchor", "label", "file", "path", "project", "project_anchor",
                                     "missing_doc", "missing_anchor", "missing_label", "noext", "noext", "missing_dir"]))
        tgt = draw(st.integers(0, n - 1))
        lk = {"src": src, "kind": kind, "tgt": tgt, "text": draw(st.sampled_from(TEXT_FORMS + ["empty", "empty"])),
              "style": draw(st.sampled_from(["rel", "rel", "dot", "abs"])), "head": draw(st.integers(0, 3)),
              "file": draw(st.integers(0, len(files) - 1))}
        links.append(lk)
    return {"docs": docs, "files": files, "links": links}


def rel(from_doc, to_path, style):
    """Path of to_path as written in a link inside from_doc (both source-root relative, posix)."""
    base = posixpath.dirname(from_doc)
    if style == "abs":
        return "/" + to_path
    r = posixpath.relpath(to_path, base or ".")
    if style == "dot" and not r.startswith("."):
        r = "./" + r
    return r


def link_text(form, marker):
    return {"plain": marker, "strong": f"**{marker}** tail", "em": f"pre *{marker}*", "code": f"`{marker}` c",
            "mixed": f"**b {marker}** and *e* `c`", "empty": ""}[form]


def build_files(case):
    """-> (files dict, link records with expectations)"""
    docs, files = case["docs"], case["files"]
    out = {}
    names = [d["name"] for d in docs]
    out["index.md"] = "# Index page\n\n```{toctree}\n" + "\n".join(names) + "\n```\n"
    for f in files:
        out[f["path"]] = f["content"]
    per_doc = {i: [] for i in range(len(docs))}
    records = []
    for k, lk in enumerate(case["links"]):
        s = docs[lk["src"]]
        t = docs[lk["tgt"]]
        marker = f"Lk{k}x"
        word = f"w{k}q"
        txt = link_text(lk["text"], marker)
        kind = lk["kind"]
        rec = {"k": k, "src": s["name"], "marker": marker, "word": word, "text_form": lk["text"], "kind": kind}
        tpath = t["name"] + ".md"
        if kind in ("doc", "noext", "project"):
            dest = rel(s["name"], tpath if kind != "noext" else t["name"], lk["style"] if kind != "noext" else "rel")
            rec.update(expect="doc", target_doc=t["name"], title=t["title"])
        elif kind in ("anchor", "project_anchor"):
            h = lk["head"] % len(t["heads"])
            title = t["heads"][h]
            nth = sum(1 for x in t["heads"][:h] if x == title)
            slug = slugify(title) + (f"-{nth}" if nth else "")
            dest = rel(s["name"], tpath, lk["style"]) + "#" + slug
            rec.update(expect="anchor", target_doc=t["name"], title=title, nth=nth)
        elif kind == "label":
            dest = "#" + t["label"]
            rec.update(expect="anchor", target_doc=t["name"], title=t["heads"][t["label_head"]],
                       nth=sum(1 for x in t["heads"][:t["label_head"]] if x == t["heads"][t["label_head"]]))
        elif kind in ("file", "path"):
            f = files[lk["file"]]
            dest = rel(s["name"], f["path"], lk["style"])
            rec.update(expect="file", file=f["path"], content=f["content"], title=dest)
        elif kind == "missing_doc":
            dest = rel(s["name"], f"nosuch{k}.md", lk["style"])
            rec.update(expect="missing", names=[f"nosuch{k}"])
        elif kind == "missing_dir":
            # the directory of the target document, when no document has that name: not a file, not a document
            tdir = posixpath.dirname(t["name"])
            if not tdir or tdir in names or posixpath.dirname(s["name"]).startswith(tdir):
                dest = rel(s["name"], f"nosuch{k}.md", lk["style"])
                rec.update(expect="missing", names=[f"nosuch{k}"])
            else:
                dest = rel(s["name"], tdir, lk["style"])
                rec.update(expect="missing", names=[f"'{dest}'"], by_line=True)
        elif kind == "missing_anchor":
            dest = rel(s["name"], tpath, lk["style"]) + f"#no-such-anchor-{k}"
            rec.update(expect="missing", names=[f"no-such-anchor-{k}"], target_doc=t["name"])
        else:
            dest = f"#nosuchlabel{k}"
            rec.update(expect="missing", names=[f"nosuchlabel{k}"])
        # (a text-less link has two spellings: the autolink '<scheme:dest>' and the bracket form '[](scheme:dest)')
        if kind in ("project", "project_anchor"):
            md = (f"<project:{dest}>" if k % 2 else f"[](project:{dest})") if lk["text"] == "empty" else f"[{txt}](project:{dest})"
        elif kind == "path":
            md = (f"<path:{dest}>" if k % 2 else f"[](path:{dest})") if lk["text"] == "empty" else f"[{txt}](path:{dest})"
        else:
            md = f"[{txt}]({dest})"
        rec["dest"] = dest
        rec["md"] = md
        rec["line"] = 3 + 2 * len(per_doc[lk["src"]])   # title, blank, then one link paragraph every other line
        per_doc[lk["src"]].append(f"{word} {md} end")
        records.append(rec)
    for i, d in enumerate(docs):
        parts = [f"# {d['title']}", ""]
        for ln in per_doc[i]:
            parts += [ln, ""]
        for h, title in enumerate(d["heads"]):
            if h == d["label_head"]:
                parts.append(f"({d['label']})=")
            parts += [f"## {title}", "", f"Body of {title} in {d['name']}.", ""]
        out[d["name"] + ".md"] = "\n".join(parts)
    return out, records


# --------------------------------------------------------------------------- oracle over the written site


def check_case(acc, case) -> list[dict]:
    from bs4 import BeautifulSoup

    mk = (acc or Acc(PROPERTY, "replay")).violation
    files, records = build_files(case)
    vs = []
    conf = {"myst_heading_anchors": 2, "suppress_warnings": []}
    try:
        with front.sphinx_project(confoverrides=conf, files=files) as proj:
            warn = proj.build()
            out = proj.out
            src_root = proj.src
            pages = {}
            for root, _d, fnames in os.walk(out):
                for fn in fnames:
                    p = os.path.join(root, fn)
                    pages[os.path.relpath(p, out).replace(os.sep, "/")] = p
            soups = {}

            def soup(page):
                if page not in soups:
                    with open(pages[page], encoding="utf-8") as fh:
                        soups[page] = BeautifulSoup(fh.read(), "html.parser")
                return soups[page]

            wl = [w for w in front.warning_lines(warn)]
            for rec in records:
                page = rec["src"] + ".html"
                info = {"link": rec["md"], "in": rec["src"] + ".md"}
                if page not in pages:
                    vs.append(mk("C12:page-not-written", case, page, sorted(pages)[:10]))
                    continue
                sp = soup(page)
                para = next((p for p in sp.find_all("p") if p.get_text().startswith(rec["word"] + " ")), None)
                if para is None:
                    vs.append(mk("C12:link-paragraph-lost", case, info, None))
                    continue
                a = para.find("a")
                if rec["expect"] == "missing":
                    hits = [w for w in wl if "[myst.xref_missing]" in w and any(re.search(re.escape(n) + r"(?!\d)", w) for n in rec["names"])
                            and (not rec.get("by_line") or w.startswith(os.path.join(src_root, rec["src"] + ".md") + f":{rec['line']}:"))]
                    if len(hits) != 1:
                        vs.append(mk(f"C12:missing-target-warning-count:{rec['kind']}", case, {**info, "count": 1}, hits[:4]))
                    elif not hits[0].startswith(os.path.join(src_root, rec["src"] + ".md") + f":{rec['line']}:"):
                        vs.append(mk("C12:missing-target-warning-location", case, {**info, "at": f"{rec['src']}.md:{rec['line']}"},
                                     hits[0].replace(src_root, "")[:200]))
                    if rec["text_form"] != "empty" and rec["marker"] not in para.get_text():
                        vs.append(mk("C12:missing-target-text-lost", case, {**info, "text": rec["marker"]}, para.get_text()[:120]))
                    continue
                stray = [w for w in wl if "[myst.xref" in w and w.startswith(os.path.join(src_root, rec["src"] + ".md") + f":{rec['line']}:")]
                if a is None or not a.get("href"):
                    vs.append(mk(f"C12:link-not-rendered:{rec['kind']}", case, info, {"paragraph": str(para)[:300], "warnings": stray[:2]}))
                    continue
                href = a["href"]
                url, frag = urldefrag(href)
                target_page = posixpath.normpath(posixpath.join(posixpath.dirname(page), unquote(url))) if url else page
                if target_page not in pages:
                    vs.append(mk(f"C12:href-names-no-output-file:{rec['kind']}", case, info, {"href": href, "resolved": target_page}))
                    continue
                if rec["expect"] in ("doc", "anchor"):
                    want_page = rec["target_doc"] + ".html"
                    if target_page != want_page:
                        vs.append(mk(f"C12:link-to-wrong-page:{rec['kind']}", case, {**info, "page": want_page}, {"href": href, "resolved": target_page}))
                        continue
                if rec["expect"] == "doc" and frag:
                    vs.append(mk("C12:document-link-has-fragment", case, info, href))
                if rec["expect"] == "anchor":
                    tsp = soup(target_page)
                    el = tsp.find(id=unquote(frag)) if frag else None
                    if el is None:
                        vs.append(mk(f"C12:fragment-is-no-id-in-target-page:{rec['kind']}", case, {**info, "title": rec["title"]}, href))
                        continue
                    heads = [h for h in tsp.find_all(re.compile("^h[1-6]$")) if h.get_text().replace("¶", "").strip() == rec["title"]]
                    if rec["nth"] >= len(heads):
                        vs.append(mk("C12:harness-heading-not-found", case, rec["title"], len(heads)))
                        continue
                    want_h = heads[rec["nth"]]
                    sec = want_h.find_parent("section")
                    ok = el is want_h or el is sec or (sec is not None and el in sec.find_all(True, recursive=False)
                                                       and el.name == "span") or (want_h in el.find_all(re.compile("^h[1-6]$")) and el.name == "section" and el is sec)
                    if not ok:
                        vs.append(mk(f"C12:fragment-on-wrong-element:{rec['kind']}", case, {**info, "heading": rec["title"], "nth": rec["nth"]},
                                     {"href": href, "element": str(el)[:160]}))
                if rec["expect"] == "file":
                    with open(pages[target_page], "rb") as fh:
                        data = fh.read()
                    if data != rec["content"].encode():
                        vs.append(mk("C12:download-is-not-the-file", case, info, {"href": href, "bytes": data[:40].decode("utf-8", "replace")}))
                # link text
                got_text = a.get_text()
                if rec["text_form"] == "empty":
                    want = rec["title"]
                    if got_text.strip() != want:
                        vs.append(mk(f"C12:implicit-link-text:{rec['kind']}", case, {**info, "text": want}, got_text))
                else:
                    if rec["marker"] not in got_text:
                        vs.append(mk(f"C12:explicit-link-text-lost:{rec['kind']}", case, {**info, "text": rec["marker"]}, str(a)[:200]))
                    else:
                        need = {"strong": ["strong"], "em": ["em"], "code": ["code"], "mixed": ["strong", "em", "code"], "plain": []}[rec["text_form"]]
                        missing_tags = [t for t in need if a.find(t) is None]
                        if missing_tags:
                            vs.append(mk(f"C12:nested-markup-lost-in-link-text:{rec['kind']}", case, {**info, "tags": need}, str(a)[:200]))
                if stray:
                    vs.append(mk(f"C12:warning-for-resolvable-link:{rec['kind']}", case, info, stray[:2]))
                if acc is not None:
                    cross = posixpath.dirname(rec["src"]) != posixpath.dirname(rec.get("target_doc", rec.get("file", rec["src"])))
                    acc.case((digest_case(case), rec["k"]), cross or rec["expect"] in ("anchor", "file"),
                             [f"kind:{rec['kind']}", f"text:{rec['text_form']}"] + (["cross-directory"] if cross else []),
                             sample={"in": rec["src"] + ".md", "link": rec["md"], "href": href, "text": got_text})
            if acc is not None:
                for rec in records:
                    if rec["expect"] == "missing":
                        acc.case((digest_case(case), rec["k"]), True, [f"kind:{rec['kind']}", f"text:{rec['text_form']}"],
                                 sample={"in": rec["src"] + ".md", "link": rec["md"], "expect": "one xref_missing warning"})
    except Exception as exc:  # noqa: BLE001
        return [mk(f"C12:build-raises:{type(exc).__name__}", case, "a built site", f"{type(exc).__name__}: {exc}")]
    out_, seen = [], set()
    for v in vs:
        if v["signature"] not in seen:
            seen.add(v["signature"])
            out_.append(v)
    return out_


def digest_case(case):
    from vlib.core import digest

    return digest(case)


def sub_projects(acc, shard, nshards, tier, seed):
    n = 10 if tier == "quick" else 80
    hyp_run(acc, project_st(), lambda c: check_case(acc, c), max_examples=n,
            seed=shard_seed(seed, shard, 12), is_known=known().matches, shrink=(tier != "quick"))


def sub_each(acc, shard, nshards, tier, seed):
    """A fixed 9-document tree (root, a/, a/b/c/, d/e/; two documents named like a directory beside them; two base names occur in two directories, one title three times): every link kind x path style x text form from every source
    document to a target in another directory (exhaustive over the spelling table)."""
    docs = [{"name": "doc0", "title": "Title D0", "heads": ["Section one D0", "Common heading", "Common heading", "Common heading"], "label": "lab-d0", "label_head": 1},
            {"name": "a/doc1", "title": "Title D1", "heads": ["Section one D1", "Section one D1", "Section one D1"], "label": "Lab-D1", "label_head": 1},
            {"name": "a/doc0", "title": "Title A0", "heads": ["Section one A0", "\u00dcbersicht \u00e9 A0"], "label": "lab-a0", "label_head": 0},
            {"name": "d/e/doc1", "title": "Title E1", "heads": ["Section one E1", "Other E1"], "label": "Setup-Guide-E1", "label_head": 1},
            {"name": "a/b/c/doc2", "title": "Title D2", "heads": ["Section one D2", "Other D2", "Common heading"], "label": "lab-d2", "label_head": 0},
            {"name": "d/e/doc3", "title": "Title D3", "heads": ["Common heading", "Third D3"], "label": "lab-d3", "label_head": 0},
            {"name": "a/doc4", "title": "Title D4", "heads": ["Section one D4", "Other D4"], "label": "lab-d4", "label_head": 1},
            # two documents whose names are also directories ('d.md' beside 'd/', 'a/b.md' beside 'a/b/')
            {"name": "d", "title": "Title Dd", "heads": ["Section one Dd", "Other Dd"], "label": "lab-dd", "label_head": 1},
            {"name": "a/b", "title": "Title Ab", "heads": ["Section one Ab", "Common heading"], "label": "lab-ab", "label_head": 0}]
    files = [{"path": "data0.txt", "content": "payload 0\n"}, {"path": "a/b/data1.txt", "content": "payload 1\n"}, {"path": "d/data2.txt", "content": "payload 2\n"}]
    kinds = ["doc", "anchor", "label", "file", "path", "project", "project_anchor", "missing_doc", "missing_anchor", "missing_label", "noext",
             "missing_dir"]
    kn = known()
    i = 0
    for src in range(len(docs)):
        for text in TEXT_FORMS + ["empty"]:
            i += 1
            if i % nshards != shard:
                continue
            links = []
            for kind in kinds:
                for style in ("rel", "dot", "abs"):
                    for tgt in range(len(docs)):
                        if tgt == src and kind not in ("anchor", "label"):
                            continue
                        if (tgt + len(links)) % 2 and tier == "quick":
                            continue
                        links.append({"src": src, "kind": kind, "tgt": tgt, "text": text, "style": style, "head": (tgt + len(links)) % 4,
                                      "file": len(links) % len(files)})
            for v in check_case(acc, {"docs": docs, "files": files, "links": links}):
                if kn.matches(v):
                    acc.known_hits[v["signature"]] += 1
                elif len(acc.violations) < 8 and all(v["signature"] != x["signature"] for x in acc.violations):
                    acc.violations.append(v)
    # one project, several source pages in different directories that write the *same* relative destination text
    # ('doc0.md', 'doc1.md', '../doc0.md'), which names a different file for each of them
    names = [d["name"] for d in docs]
    same_text = [("a/doc4", "a/doc0"), ("d", "doc0"), ("a/doc4", "a/doc1"), ("d/e/doc3", "d/e/doc1"), ("a/b", "a/doc0"), ("d/e/doc3", "d/e/doc1"),
                 ("a/doc1", "a/doc0"), ("doc0", "d"), ("a/doc0", "a/b"), ("a/b/c/doc2", "a/b"), ("a/doc1", "doc0"), ("d/e/doc1", "d")]
    for kind in ("project", "doc", "noext", "project_anchor", "anchor", "file", "path"):
        for text in ("empty", "plain"):
            for order in (0, 1):
                i += 1
                if i % nshards != shard:
                    continue
                pairs = same_text if order == 0 else list(reversed(same_text))
                links = [{"src": names.index(s), "kind": kind, "tgt": names.index(t), "text": text, "style": "rel", "head": k % 2, "file": k % len(files)}
                         for k, (s, t) in enumerate(pairs)]
                for v in check_case(acc, {"docs": docs, "files": files, "links": links}):
                    if kn.matches(v):
                        acc.known_hits[v["signature"]] += 1
                    elif len(acc.violations) < 8 and all(v["signature"] != x["signature"] for x in acc.violations):
                        acc.violations.append(v)
    acc.exhaustive = True


def plan(tier):
    return [Sub("each", sub_each, 6), Sub("projects", sub_projects, 10)]


def replay(sub, input):
    return check_case(None, input)
