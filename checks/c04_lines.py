"""C04 - nodes and warnings carry the true source line, at any nesting depth."""

from __future__ import annotations

import itertools
import os
import re
import shutil
import tempfile

from hypothesis import strategies as st

from vlib import front
from vlib.core import Acc, Sub, hyp_run, shard_seed
from vlib.findings import Known

PROPERTY = "C04"
RULE = (
    "Nested documents in which every leaf (paragraph, heading, fenced code block, '(target)=', unknown-directive fence, "
    "paragraph with an unknown role, paragraph with strikethrough, admonition with an unknown option) occupies known "
    "source lines and carries a unique marker word (also a fenced code block without lexer, an unreferenced footnote "
    "definition, a duplicate definition, a parsed-literal directive: its node may carry the directive's or its first "
    "content line), so the true first line of every construct is known by "
    "construction. Wrappers, drawn recursively: block quote, bullet / ordered list (1-3 items), backtick and colon "
    "directives (note / warning / admonition with title) with {no options, ':k: v' block, '---' block} x {0,1,2 blank "
    "lines before the body} x {0,1 blank line before the closing fence}, colon div, and include of a generated file "
    "(with / without start-line / start-after / both). (entry) the same trees through the Sphinx entry point as well "
    "(MystParser.parse inside a live application) and with 0-3 blank lines before the first block. (enum) every wrapper shape to depth 2 (thorough: 3) around every leaf kind; (random) "
    "Hypothesis trees to depth 5. Oracle on the pre-transform doctree: the node holding a marker has line == true "
    "line; its chain of container ancestors (block_quote, bullet_list / enumerated_list, list_item, admonition node, "
    "container) carries, in order, the first lines of the corresponding wrappers; every MyST warning for a marked "
    "construct starts with '<source>:<true line>:' and its system_message has the same line; inside an include the "
    "source is the included file and lines are relative to it. Non-trivial: depth >= 2 with at least one directive "
    "wrapper; distinct by wrapper shape (not by marker text)."
)
ASSUMPTIONS = [
    "inline constructs only carry their block's first line by design, so warning-producing inline constructs are "
    "placed in one-line paragraphs",
    "nodes created by docutils itself (system-message bodies, admonition titles) and table rows / cells (no source map "
    "of their own; the untrue value is pinned by the gettext fixtures) are outside the checked domain",
]
FLOOR = {"quick": 400, "thorough": 8000}

EXTS = ["colon_fence", "strikethrough", "deflist"]
LEAF_KINDS = ["para", "para2", "heading", "code", "target", "unknown_dir", "unknown_role", "strike", "bad_option", "dupdef",
              "unref_foot", "code_nolexer", "parsed_lit"]
TRACKED = ("block_quote", "bullet_list", "enumerated_list", "list_item", "note", "warning", "admonition", "container", "compound")

_known = None


def known() -> Known:
    global _known
    if _known is None:
        _known = Known(PROPERTY)
    return _known


class Ctx:
    def __init__(self):
        self.n = 0
        self.leaves = []    # {"marker", "kind", "line", "chain": [(tag, line) inner->outer], "file": None|name}
        self.files = {}

    def mk(self):
        self.n += 1
        return f"Mk{self.n}x"


def emit(node, ctx, line0, chain, file):
    """-> lines.  line0 = 1-based line (in `file`) of the first emitted line; chain inner->outer of (tag, line)."""
    t = node["t"]
    if t == "leaf":
        k = node["kind"]
        m = ctx.mk()
        rec = {"marker": m, "kind": k, "line": line0, "chain": list(chain), "file": file}
        if k == "para":
            lines = [f"{m} text"]
        elif k == "para2":
            lines = [f"{m} first", "second line"]
        elif k == "heading":
            lines = [f"## {m} title"]
        elif k == "code":
            lines = ["~~~python", f"{m} = 1", "~~~"]
        elif k == "code_nolexer":
            # a language the highlighter has no lexer for (highlighting is on, the docutils default)
            lines = ["~~~mermaid", f"{m} --> x", "~~~"]
        elif k == "parsed_lit":
            # a docutils directive that numbers its own node (from the content offset the directive is given)
            lines = ["~~~{parsed-literal}", f"{m} lit", "~~~"]
        elif k == "target":
            lines = [f"({m.lower()})=", f"after target {m}"]
        elif k == "unknown_dir":
            lines = [f"~~~{{unk{m}}}", "x", "~~~"]
        elif k == "unknown_role":
            lines = [f"{m} {{unkrole{m}}}`x` end"]
        elif k == "strike":
            lines = [f"{m} ~~gone~~ end"]
        elif k == "bad_option":
            lines = ["~~~{tip}", f":bogus{m}: 1", f"{m} body", "~~~"]
        elif k == "dupdef":
            # the second definition is the duplicate: its warning belongs to its own line
            lines = [f"{m} para", "", f"[dd{m}]: https://e.org/a", "", f"[dd{m}]: https://e.org/b"]
            rec["warn_line"] = line0 + 4
        elif k == "unref_foot":
            # a footnote definition that nothing refers to: reported by a *transform*, long after the file was read
            lines = [f"{m} para", "", f"[^fn{m.lower()}]: note {m}"]
            rec["warn_line"] = line0 + 2
        ctx.leaves.append(rec)
        return lines
    if t == "seq":
        out = []
        for i, ch in enumerate(node["ch"]):
            if i:
                out.append("")
            if ch["t"] in ("ul", "ol"):
                ch = dict(ch, _alt=i)  # adjacent lists need different markers, or Markdown merges them
            out.extend(emit(ch, ctx, line0 + len(out), chain, file))
        return out
    if t == "quote":
        inner = emit(node["ch"], ctx, line0, [("block_quote", line0)] + chain, file)
        return [("> " + ln) if ln else ">" for ln in inner]
    if t in ("ul", "ol"):
        tag = "bullet_list" if t == "ul" else "enumerated_list"
        out = []
        for i, item in enumerate(node["items"]):
            if i:
                out.append("")
            alt = node.get("_alt", 0)
            marker = ("-*+"[alt % 3] + " ") if t == "ul" else f"{i + 1}{'.)'[alt % 2]} "
            l0 = line0 + len(out)
            inner = emit(item, ctx, l0, [("list_item", l0), (tag, line0)] + chain, file)
            pad = " " * len(marker)
            out.extend((marker + ln) if j == 0 else ((pad + ln) if ln else "") for j, ln in enumerate(inner))
        return out
    if t == "dir":
        name = node["name"]
        ch = node["fence"]
        head_opts = []
        if node["opts"] == "colon":
            head_opts = [":class: c1"]
        elif node["opts"] == "dash":
            head_opts = ["---", "class: c1", "---"]
        elif node["opts"] == "colon2":
            head_opts = [":class: c1", ":name: n" + str(ctx.n)]
        pre_len = 1 + len(head_opts) + node["blank"]
        inner = emit(node["ch"], ctx, line0 + pre_len, [(name, line0)] + chain, file)
        longest = 2
        for ln in inner:
            mm = re.match(r"[ >\-0-9.]*(" + re.escape(ch) + r"{3,})", ln)
            if mm:
                longest = max(longest, len(mm.group(1)))
        f = ch * (longest + 1)
        title = {"admonition": " Title", "container": " box"}.get(name, "")
        return [f + "{" + name + "}" + title] + head_opts + [""] * node["blank"] + inner + [""] * node["blank_end"] + [f]
    if t == "div":
        blank = node.get("blank", 0)      # blank lines between the opening fence and the content
        inner = [""] * blank + emit(node["ch"], ctx, line0 + 1 + blank, [("container", line0)] + chain, file)
        longest = 2
        for ln in inner:
            mm = re.match(r"[ >\-0-9.]*(:{3,})", ln)
            if mm:
                longest = max(longest, len(mm.group(1)))
        f = ":" * (longest + 1)
        return [f + "cls"] + inner + [f]
    if t == "include":
        fname = f"inc{len(ctx.files)}.md"
        ctx.files[fname] = None  # reserve
        pad = ["pad line"] * node["pad"] + ([""] if node["pad"] else [])
        inner = emit(node["ch"], ctx, 1 + len(pad), [], fname)
        ctx.files[fname] = "\n".join(pad + inner) + "\n"
        opts = []
        if node["start_line"] == 1 and node["pad"]:
            # start-line: skip the padding; lines stay relative to the included file
            opts = [f":start-line: {len(pad)}"]
        elif node["start_line"] == 3 and node["pad"] >= 2:
            # both: start-line skips the first padding lines, start-after a marker on the last one
            ctx.files[fname] = "\n".join(["pad line"] * (node["pad"] - 1) + ["pad STARTAFTER", ""] + inner) + "\n"
            opts = [f":start-line: {node['pad'] - 1}", ":start-after: STARTAFTER"]
        elif node["start_line"] >= 2 and node["pad"]:
            # start-after a marker text that sits on the last padding line
            ctx.files[fname] = "\n".join(["pad line"] * (node["pad"] - 1) + ["pad STARTAFTER", ""] + inner) + "\n"
            opts = [":start-after: STARTAFTER"]
        return [f"```{{include}} {fname}"] + opts + ["```"]
    raise ValueError(t)


def build(tree):
    """-> (text, ctx).  Handles the 'needs a blank line' re-emission by normalising the tree first."""
    lead = tree.get("lead", 0)          # blank lines before the first block: every true line moves down with them
    tree = normalise(tree)
    ctx = Ctx()
    lines = emit(tree, ctx, 1 + lead, [], None)
    return "\n" * lead + "\n".join(lines) + "\n", ctx


def first_line_of(node):
    """First emitted line text of a subtree (cheap dry run)."""
    c = Ctx()
    return emit(node, c, 1, [], None)[0]


def normalise(node):
    """Insert the documented blank line where a directive body would otherwise be read as options."""
    t = node["t"]
    if t == "leaf":
        return node
    if t == "seq":
        return {"t": "seq", "ch": [normalise(c) for c in node["ch"]]}
    if t in ("ul", "ol"):
        return {**node, "items": [normalise(i) for i in node["items"]]}
    n = {**node, "ch": normalise(node["ch"])}
    if t == "dir" and n["blank"] == 0:
        fl = first_line_of(n["ch"])
        if n["opts"] == "none":
            if fl.startswith("---") or (fl.startswith(":") and not (n["fence"] == ":" and fl.startswith(":::"))):
                n["blank"] = 1
        elif n["opts"] in ("colon", "colon2") and fl.startswith(":"):
            # a ':k: v' option block ends at the first line that does not start with ':'
            n["blank"] = 1
    return n


_SPHINX = {}


def _sphinx_project():
    """One live Sphinx application per worker process (documents are parsed inside it one after the other)."""
    pid = os.getpid()
    if pid not in _SPHINX:
        import atexit

        proj = front.SphinxProject(confoverrides={"myst_enable_extensions": EXTS})
        _SPHINX.clear()
        _SPHINX[pid] = proj
        atexit.register(lambda: pid == os.getpid() and proj.close())
    return _SPHINX[pid]


def shape(node):
    if node.get("via") == "sphinx" or node.get("lead"):
        return f"{node.get('via', 'docutils')}:lead{node.get('lead', 0)}:" + shape({k: v for k, v in node.items() if k not in ("via", "lead")})
    t = node["t"]
    if t == "leaf":
        return node["kind"]
    if t == "seq":
        return "[" + ",".join(shape(c) for c in node["ch"]) + "]"
    if t in ("ul", "ol"):
        return t + "(" + "|".join(shape(i) for i in node["items"]) + ")"
    if t == "dir":
        return f"{node['name']}{node['fence']}{node['opts']}{node['blank']}{node['blank_end']}({shape(node['ch'])})"
    if t == "include":
        return f"include{node['pad']}{int(node['start_line'])}({shape(node['ch'])})"
    return t + "(" + shape(node["ch"]) + ")"


def depth(node):
    t = node["t"]
    if t == "leaf":
        return 0
    if t == "seq":
        return max(depth(c) for c in node["ch"])
    if t in ("ul", "ol"):
        return 1 + max(depth(i) for i in node["items"])
    return 1 + depth(node["ch"])


def has(node, pred):
    if pred(node):
        return True
    t = node["t"]
    if t == "seq":
        return any(has(c, pred) for c in node["ch"])
    if t in ("ul", "ol"):
        return any(has(i, pred) for i in node["items"])
    if t == "leaf":
        return False
    return has(node["ch"], pred)


# --------------------------------------------------------------------------- oracle


def check_case(acc, tree) -> list[dict]:
    from docutils import nodes

    mk = (acc or Acc(PROPERTY, "replay")).violation
    text, ctx = build(tree)
    via = tree.get("via", "docutils")
    if via == "sphinx":
        # the Sphinx entry point (MystParser.parse inside a live application): same text, same true lines
        proj = _sphinx_project()
        tmp = proj.src
        src = os.path.join(tmp, "main.md")
        try:
            doc, warn = front.sphinx_parse_pre(text, proj, "main")
        except Exception as exc:  # noqa: BLE001
            return [mk(f"C04:render-raises:{type(exc).__name__}", tree, "document", f"{type(exc).__name__}: {exc}")]
        # Sphinx' own rendering of a location whose file it has not registered ('main.md.rst'): not MyST's doing
        warn = warn.replace("main.md.rst:", "main.md:")
    else:
        tmp = tempfile.mkdtemp(prefix="verif-c04-")
        try:
            for name, content in ctx.files.items():
                with open(os.path.join(tmp, name), "w") as fh:
                    fh.write(content)
            src = os.path.join(tmp, "main.md")
            try:
                doc, warn = front.docutils_parse(text, source_path=src, settings={"myst_enable_extensions": EXTS,
                                                                                  "myst_highlight_code_blocks": True})
            except Exception as exc:  # noqa: BLE001
                return [mk(f"C04:render-raises:{type(exc).__name__}", tree, "document", f"{type(exc).__name__}: {exc}")]
        finally:
            shutil.rmtree(tmp, ignore_errors=True)
    vs = []
    wl = [w.replace(": WARNING: ", ": ", 1) for w in front.warning_lines(warn)] if via == "sphinx" else front.warning_lines(warn)
    inc = has(tree, lambda n: n["t"] == "include")

    def sig(base, leaf, expected=None, observed=None):
        # inside an included file every line is reported one too large (known finding, pinned by a fixture): that
        # specific deviation has one signature of its own; any other deviation keeps its specific signature
        if leaf["file"]:
            if isinstance(expected, int) and isinstance(observed, int) and observed == expected + 1:
                return "C04:included-file-lines-plus-one"
            return base + ":in-included-file"
        return base

    for leaf in ctx.leaves:
        m, k, line = leaf["marker"], leaf["kind"], leaf["line"]
        want_src = os.path.join(tmp, leaf["file"]) if leaf["file"] else src
        # --- the node
        node = None
        if k in ("para", "para2", "unknown_role", "strike", "dupdef", "unref_foot"):
            cands = [p for p in doc.findall(nodes.paragraph) if m in p.astext() and not isinstance(p.parent, nodes.system_message)]
            node = min(cands, key=lambda p: len(p.astext())) if cands else None
        elif k == "heading":
            cands = [p for p in doc.findall(lambda n: isinstance(n, (nodes.title, nodes.rubric))) if m in p.astext()]
            node = cands[0] if cands else None
        elif k in ("code", "code_nolexer", "parsed_lit"):
            cands = [p for p in doc.findall(nodes.literal_block) if m in p.astext() and not isinstance(p.parent, nodes.system_message)]
            node = cands[0] if cands else None
        elif k == "target":
            cands = [p for p in doc.findall(nodes.target) if m.lower() in p.get("names", [])]
            node = cands[0] if cands else None
        elif k == "bad_option":
            cands = [p for p in doc.findall(nodes.tip) if m in p.astext()]
            node = cands[0] if cands else None
        if k != "unknown_dir":
            if node is None:
                vs.append(mk(sig("C04:marked-node-missing", leaf), tree, {"marker": m, "kind": k}, None))
                continue
            if k == "parsed_lit":
                # the directive's first line, or its first content line (what docutils' own parser reports for it)
                if node.line not in (line, line + 1):
                    # (one recorded finding, in the main file and in included files alike: the line is the directive's
                    # content offset + 1, counted from the directive instead of from the start of the file)
                    vs.append(mk("C04:node-line:parsed_lit:relative-to-directive" if node.line == 1
                                 else sig("C04:node-line:parsed_lit", leaf, line, node.line), tree,
                                 {"marker": m, "kind": k, "line": [line, line + 1]}, {"line": node.line}))
            elif node.line != line:
                vs.append(mk(sig(f"C04:node-line:{k}", leaf, line, node.line), tree, {"marker": m, "kind": k, "line": line}, {"line": node.line}))
            if k == "heading" and isinstance(node, nodes.title) and node.parent.line != line:
                vs.append(mk(sig("C04:node-line:section", leaf, line, node.parent.line), tree, {"marker": m, "line": line}, {"line": node.parent.line}))
            if getattr(node, "source", None) is not None and node.source != want_src:
                vs.append(mk(sig("C04:node-source", leaf), tree, {"marker": m, "source": os.path.basename(want_src)},
                             {"source": os.path.basename(str(node.source))}))
            # --- container chain (inner -> outer)
            got_chain = []
            p = node.parent if k != "bad_option" else node.parent
            while p is not None and not isinstance(p, nodes.document):
                if p.tagname in TRACKED and not (k == "bad_option" and p is node):
                    got_chain.append((p.tagname, p.line))
                p = p.parent
            exp_chain = [tuple(x) for x in leaf["chain"]]
            if leaf["file"] is None and got_chain != exp_chain:
                vs.append(mk("C04:container-lines", tree, {"marker": m, "chain": exp_chain}, {"chain": got_chain}))
            elif leaf["file"] is not None and got_chain[:len(exp_chain)] != exp_chain:
                plus1 = [(tg, ln + 1) for tg, ln in exp_chain]
                vs.append(mk("C04:included-file-lines-plus-one" if got_chain[:len(exp_chain)] == plus1
                             else "C04:container-lines:in-included-file", tree, {"marker": m, "chain": exp_chain}, {"chain": got_chain}))
        # --- the warning
        wkey = {"unknown_dir": f"unk{m}", "unknown_role": f"unkrole{m}", "bad_option": f"bogus{m}", "strike": None,
                "dupdef": f"DD{m.upper()}"}.get(k)
        if k == "dupdef":
            line = leaf["warn_line"]
        if k in ("unknown_dir", "unknown_role", "bad_option", "strike", "dupdef"):
            if k == "strike":
                # strikethrough warnings carry no marker: match by expected prefix count below
                pref = f"{want_src}:{line}: "
                hits = [w for w in wl if w.startswith(pref) and "[myst.strikethrough]" in w]
                if len(hits) != 1:
                    others = [w[len(os.path.dirname(want_src)) + 1:][:60] for w in wl if "[myst.strikethrough]" in w]
                    plus1 = [w for w in wl if w.startswith(f"{want_src}:{line + 1}: ") and "[myst.strikethrough]" in w]
                    vs.append(mk(sig("C04:warning-line:strike", leaf, line, line + 1 if plus1 else None), tree, {"marker": m, "prefix": f"{os.path.basename(want_src)}:{line}:"},
                                 {"strikethrough_warnings": others[:6]}))
            else:
                hits = [w for w in wl if wkey in w and "[myst." in w]
                if len(hits) != 1:
                    vs.append(mk(sig("C04:warning-count", leaf), tree, {"marker": m, "kind": k, "count": 1}, hits[:3]))
                else:
                    mm = re.match(r"^(.*?):(\d+): ", hits[0])
                    got = (os.path.basename(mm.group(1)), int(mm.group(2))) if mm else None
                    want = (os.path.basename(want_src), line)
                    if got != want:
                        vs.append(mk(sig(f"C04:warning-line:{k}", leaf, want[1], got[1] if got and got[0] == want[0] else None), tree,
                                     {"marker": m, "at": want}, {"at": got}))
                    # the system_message node agrees with the log line
                    sms = [s for s in doc.findall(nodes.system_message) if wkey in s.astext()]
                    if sms and sms[0].get("line") != (got[1] if got else None):
                        vs.append(mk(sig("C04:system-message-line", leaf), tree, {"line": got}, {"line": sms[0].get("line")}))
    # --- warnings raised by transforms (the unreferenced-footnote detector): same file and line rules
    foots = [lf for lf in ctx.leaves if lf["kind"] == "unref_foot"]
    if foots and via != "sphinx":
        tmp2 = tempfile.mkdtemp(prefix="verif-c04-")
        try:
            for name, content in ctx.files.items():
                with open(os.path.join(tmp2, name), "w") as fh:
                    fh.write(content)
            src2 = os.path.join(tmp2, "main.md")
            try:
                _pdoc, pwarn = front.docutils_publish(text, source_path=src2, settings={"myst_enable_extensions": EXTS})
            except Exception as exc:  # noqa: BLE001
                return [mk(f"C04:render-raises:{type(exc).__name__}", tree, "document", f"{type(exc).__name__}: {exc}")]
        finally:
            shutil.rmtree(tmp2, ignore_errors=True)
        fw = [w.replace(tmp2 + os.sep, "") for w in front.warning_lines(pwarn) if "[ref.footnote]" in w]
        want = {}
        for lf in foots:
            want[(lf["file"] or "main.md", lf["warn_line"])] = lf
        got = []
        for w in fw:
            mm = re.match(r"^(.*?):(\d+): ", w)
            got.append((mm.group(1), int(mm.group(2))) if mm else (w, None))
        for key, lf in want.items():
            if key in got:
                continue
            plus1 = (key[0], key[1] + 1)
            if lf["file"] and plus1 in got:
                vs.append(mk("C04:included-file-lines-plus-one", tree, {"marker": lf["marker"], "at": key}, {"at": plus1}))
            else:
                vs.append(mk(sig("C04:warning-line:unref_foot", lf), tree, {"marker": lf["marker"], "at": key}, {"footnote_warnings": got[:6]}))
        if len(got) != len(want):
            vs.append(mk("C04:warning-count:unref_foot", tree, len(want), got[:8]))
    if acc is not None:
        d = depth(tree)
        hasdir = has(tree, lambda n: n["t"] == "dir")
        acc.case(shape(tree), d >= 2 and hasdir,
                 [f"depth:{min(d, 6)}"] + (["include"] if inc else []) + (["directive"] if hasdir else [])
                 + ([f"via:sphinx:lead{tree.get('lead', 0)}"] if via == "sphinx" else ([f"lead:{tree['lead']}"] if tree.get("lead") else []))
                 + sorted({"leaf:" + lf["kind"] for lf in ctx.leaves}),
                 sample={"text": text, "leaves": [(lf["marker"], lf["kind"], lf["line"]) for lf in ctx.leaves][:8]})
    out, seen = [], set()
    for v in vs:
        if v["signature"] not in seen:
            seen.add(v["signature"])
            out.append(v)
    return out


# --------------------------------------------------------------------------- generators

leaf_st = st.builds(lambda k: {"t": "leaf", "kind": k}, st.sampled_from(LEAF_KINDS))


def dir_st(children):
    return st.builds(
        lambda name, fence, opts, blank, blank_end, ch: {"t": "dir", "name": name, "fence": fence, "opts": opts,
                                                         "blank": blank, "blank_end": blank_end, "ch": ch},
        st.sampled_from(["note", "warning", "admonition"]), st.sampled_from(["`", ":"]),
        st.sampled_from(["none", "none", "colon", "dash", "colon2"]), st.integers(0, 2), st.integers(0, 1), children)


def tree_st(allow_include=True, max_leaves=8):
    def extend(children):
        seq = st.builds(lambda ch: {"t": "seq", "ch": ch}, st.lists(children, min_size=1, max_size=3))
        opts = [
            st.builds(lambda ch: {"t": "quote", "ch": ch}, seq),
            st.builds(lambda items: {"t": "ul", "items": items}, st.lists(seq, min_size=1, max_size=3)),
            st.builds(lambda items: {"t": "ol", "items": items}, st.lists(seq, min_size=1, max_size=2)),
            dir_st(seq), dir_st(seq),
            st.builds(lambda ch, b: {"t": "div", "ch": ch, "blank": b}, seq, st.sampled_from([0, 0, 1, 2])),
        ]
        return st.one_of(*opts)

    node = st.recursive(leaf_st, extend, max_leaves=max_leaves)
    top = st.builds(lambda ch: {"t": "seq", "ch": ch}, st.lists(node, min_size=1, max_size=4))
    if not allow_include:
        return top
    inc = st.builds(lambda pad, sl, ch: {"t": "include", "pad": pad, "start_line": sl, "ch": ch},
                    st.integers(0, 4), st.sampled_from([0, 1, 2, 3, 3]), top)
    return st.builds(lambda a, b, c: {"t": "seq", "ch": a["ch"] + [b] + c["ch"]}, top, inc, top)


def wrappers():
    """Single wrapper constructors (applied to a child subtree), every directive layout included."""
    ws = [("quote", lambda ch: {"t": "quote", "ch": ch}),
          ("ul", lambda ch: {"t": "ul", "items": [ch]}),
          ("ul2", lambda ch: {"t": "ul", "items": [{"t": "leaf", "kind": "para"}, ch]}),
          ("ol", lambda ch: {"t": "ol", "items": [ch]}),
          ("div", lambda ch: {"t": "div", "ch": ch}), ("div1", lambda ch: {"t": "div", "ch": ch, "blank": 1}),
          ("div2", lambda ch: {"t": "div", "ch": ch, "blank": 2})]
    for name in ("note", "admonition"):
        for fence in "`:":
            for opts in ("none", "colon", "dash"):
                for blank in (0, 1, 2):
                    for be in (0, 1):
                        ws.append((f"{name}{fence}{opts}{blank}{be}",
                                   lambda ch, name=name, fence=fence, opts=opts, blank=blank, be=be:
                                   {"t": "dir", "name": name, "fence": fence, "opts": opts, "blank": blank,
                                    "blank_end": be, "ch": ch}))
    # directives whose docutils implementation creates the node without a line of its own
    for name in ("container", "compound"):
        for fence in "`:":
            for blank in (0, 1):
                ws.append((f"{name}{fence}none{blank}0",
                           lambda ch, name=name, fence=fence, blank=blank:
                           {"t": "dir", "name": name, "fence": fence, "opts": "none", "blank": blank, "blank_end": 0, "ch": ch}))
    return ws


def sub_enum(acc, shard, nshards, tier, seed):
    kn = known()
    ws = wrappers()
    maxdepth = 2 if tier == "quick" else 3
    i = 0
    small = [w for w in ws if not w[0].startswith("admonition")]

    def record(vs):
        for v in vs:
            if kn.matches(v):
                acc.known_hits[v["signature"]] += 1
            elif len(acc.violations) < 8 and all(v["signature"] != x["signature"] for x in acc.violations):
                acc.violations.append(v)

    for d in range(1, maxdepth + 1):
        pool = ws if d <= 2 else small[::3]
        for combo in itertools.product(pool, repeat=d):
            for kind in (LEAF_KINDS if d < 3 else ["para", "unknown_dir", "heading"]):
                i += 1
                if i % nshards != shard:
                    continue
                if tier == "quick" and d == 2 and i % 4:
                    continue
                sub = {"t": "seq", "ch": [{"t": "leaf", "kind": kind}, {"t": "leaf", "kind": "para"}]}
                for _name, w in reversed(combo):
                    sub = {"t": "seq", "ch": [w(sub)]} if True else sub
                tree = {"t": "seq", "ch": [{"t": "leaf", "kind": "para"}, sub, {"t": "leaf", "kind": "unknown_role"}]}
                record(check_case(acc, tree))
    acc.extra["enumerated_wrapper_depth"] = maxdepth
    acc.extra["wrapper_shapes"] = len(ws)


def sub_random(acc, shard, nshards, tier, seed):
    n = 150 if tier == "quick" else 5000
    hyp_run(acc, tree_st(allow_include=False), lambda t: check_case(acc, t), max_examples=n,
            seed=shard_seed(seed, shard, 4), is_known=known().matches)


def sub_include(acc, shard, nshards, tier, seed):
    n = 60 if tier == "quick" else 1500
    hyp_run(acc, tree_st(allow_include=True, max_leaves=5), lambda t: check_case(acc, t), max_examples=n,
            seed=shard_seed(seed, shard, 5), is_known=known().matches)


def sub_entry(acc, shard, nshards, tier, seed):
    """Both entry points (docutils Parser, Sphinx MystParser) x 0-3 blank lines before the first block."""
    n = 60 if tier == "quick" else 1200
    strat = st.builds(lambda t, via, lead: {**t, "via": via, "lead": lead}, tree_st(allow_include=False, max_leaves=6),
                      st.sampled_from(["sphinx", "sphinx", "docutils"]), st.sampled_from([0, 1, 1, 2, 3]))
    hyp_run(acc, strat, lambda t: check_case(acc, t), max_examples=n,
            seed=shard_seed(seed, shard, 6), is_known=known().matches)


def plan(tier):
    return [Sub("enum", sub_enum, 16), Sub("random", sub_random, 12), Sub("include", sub_include, 4),
            Sub("entry", sub_entry, 4)]


def replay(sub, input):
    return check_case(None, input)
