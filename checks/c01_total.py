"""C01 - parsing is total: any text, any valid config, never an uncaught exception."""

from __future__ import annotations

import os
import shutil
import tempfile
import traceback

from hypothesis import strategies as st

from vlib import front, mdgen, soup
from vlib.core import Acc, CaseTimeout, Sub, hyp_run, shard_seed, watchdog
from vlib.findings import Known

PROPERTY = "C01"
RULE = (
    "Five generators: (doc) grammar documents (full MyST grammar incl. directives, roles, footnotes, substitutions, "
    "eval-rst, convertible HTML; 'wild' text alphabet) under a drawn valid MdParserConfig (every subset of the 14 "
    "importable syntax extensions, commonmark_only, all boolean / list / dict fields); (soup) token soup over ~200 "
    "syntax-significant fragments; (front) front matter from a YAML line vocabulary (aliases, anchors, tags, complex "
    "keys, non-dict roots, control characters, myst: overrides of right and wrong type for every field) + body; "
    "(hostile) fragments for each documented error path (C07 option blocks inside directives, unknown roles / "
    "directives, <img>/<div class=admonition> with valueless / duplicate / long attributes, Jinja errors and cycles, "
    "over-long and NUL link paths, inv: links); (fault) include (backtick / colon / eval-rst spelling, literal / code "
    "/ start-after / start-line options) and myst_inventories paths drawn from {missing, directory, undecodable, "
    "binary, empty, self-including, mutually including, valid}. Both front ends: docutils publish_doctree "
    "(parse + transforms) and an in-process Sphinx app (read_doc + apply_post_transforms). Oracle: no exception "
    "escapes, the result is a document, fault paths are reported. Escaping exceptions are bucketed by (type, "
    "innermost myst_parser frame). Non-trivial: the case reaches a directive, role, HTML conversion, front-matter "
    "override, substitution, nested parse or fault path (decided from the generator's AST / text); distinct by case."
)
ASSUMPTIONS = [
    "halt_level=5 (docutils converts SEVERE messages into SystemMessage exceptions at the user's request otherwise)",
    "RecursionError from block nesting deeper than markdown-it's own maxNesting is not generated (generator depth <= 6)",
    "linkify / gfm_only need linkify-it-py, which is not importable here, so those configurations are not generated",
    "per-case watchdog 60 s; a hit is re-run once with 10x budget and only a second hit counts as non-termination",
]
FLOOR = {"quick": 1000, "thorough": 20000}

_known = None


def known() -> Known:
    global _known
    if _known is None:
        _known = Known(PROPERTY)
    return _known


def _short(filename: str) -> str:
    for mark in ("/myst_parser/", "site-packages/", "/lib/python3"):
        if mark in filename:
            tail = filename.split(mark)[-1]
            return ("myst_parser/" + tail) if mark == "/myst_parser/" else tail
    return os.path.basename(filename)


def exc_signature(exc: BaseException) -> str:
    """Bucket = (exception type, innermost myst_parser frame, innermost frame overall)."""
    if isinstance(exc, RecursionError):
        return "C01:RecursionError"
    tb = [f for f in traceback.extract_tb(exc.__traceback__) if "/verif/" not in f.filename]
    myst = next((f for f in reversed(tb) if "/myst_parser/" in f.filename), None)
    leaf = tb[-1] if tb else None
    tname = "UnicodeError" if isinstance(exc, UnicodeError) else type(exc).__name__
    parts = [f"C01:{tname}"]
    if myst is not None:
        parts.append(f"{_short(myst.filename)}:{myst.name}")
    if myst is not None and myst.name == "run_directive" and leaf is not myst:
        # the exception comes straight out of a (docutils / Sphinx) directive's run():
        # identify the directive implementation, not the leaf of its call stack
        after = tb[tb.index(myst) + 1:]
        nxt = next((f for f in reversed(after) if "/directives/" in f.filename), after[0])
        parts.append(f"{_short(nxt.filename)}:{nxt.name}")
    elif leaf is not None and leaf is not myst:
        parts.append(f"{_short(leaf.filename)}:{leaf.name}")
    return ":".join(parts) if len(parts) > 1 else parts[0] + ":unknown"


# ------------------------------------------------------------------ file faults


def materialise(files: dict, root: str) -> None:
    for name, spec in files.items():
        p = os.path.join(root, name)
        kind = spec["kind"]
        if kind == "missing":
            continue
        if kind == "dir":
            os.makedirs(p, exist_ok=True)
            continue
        os.makedirs(os.path.dirname(p) or root, exist_ok=True)
        with open(p, "wb") as fh:
            fh.write(spec["content"].encode("latin-1") if kind == "bytes" else spec["content"].encode("utf-8"))


def cleanup(files: dict, root: str) -> None:
    for name in files:
        p = os.path.join(root, name)
        if os.path.isdir(p):
            shutil.rmtree(p, ignore_errors=True)
        elif os.path.exists(p):
            os.unlink(p)


# ------------------------------------------------------------------ running one case


def run_docutils(case, tmp):
    cfg = dict(case.get("cfg") or {})
    settings = {"myst_" + k: v for k, v in cfg.items()}
    settings["myst_highlight_code_blocks"] = cfg.get("highlight_code_blocks", True)
    if case.get("inventories"):
        settings["myst_inventories"] = {k: (u, os.path.join(tmp, p) if p else None) for k, (u, p) in
                                        case["inventories"].items()}
    if case.get("raw_settings"):
        settings.update(case["raw_settings"])
    src = os.path.join(tmp, "main.md")
    return front.docutils_publish(case["text"], source_path=src, settings=settings)


_sphinx = None


def sphinx_app():
    global _sphinx
    if _sphinx is None:
        _sphinx = front.SphinxProject()
        import atexit

        atexit.register(_sphinx.close)
    return _sphinx


def run_sphinx(case):
    from myst_parser.config.main import MdParserConfig

    proj = sphinx_app()
    cfg = {k: v for k, v in (case.get("cfg") or {}).items()
           if k not in ("suppress_warnings", "highlight_code_blocks", "inventories")}
    proj.app.env.myst_config = MdParserConfig(**cfg)
    return proj.read_doc("doc", case["text"])


def check_case(acc, case, frontend: str) -> list[dict]:
    from docutils import nodes

    mk = (acc or Acc(PROPERTY, "replay")).violation
    files = case.get("files") or {}
    vs = []
    tmp = None
    try:
        if frontend == "docutils":
            tmp = tempfile.mkdtemp(prefix="verif-c01-")
            root = tmp
        else:
            root = sphinx_app().src
        materialise(files, root)
        result = None
        for attempt, budget in enumerate((60, 600)):
            try:
                with watchdog(budget):
                    if frontend == "docutils":
                        result = run_docutils(case, tmp)
                    else:
                        result = run_sphinx(case)
                break
            except CaseTimeout:
                if attempt == 1:
                    vs.append(mk("C01:nontermination", case, "terminates", "no result after 600 s"))
                continue
            except (KeyboardInterrupt, MemoryError):
                raise
            except BaseException as exc:  # noqa: BLE001
                if type(exc).__name__ == "HarnessError":
                    raise
                sig = exc_signature(exc)
                tbtxt = "".join(traceback.format_exception(type(exc), exc, exc.__traceback__))[-1500:]
                vs.append(mk(sig, {**case, "frontend": frontend}, "a document; problems reported as warnings",
                             f"{type(exc).__name__}: {str(exc)[:300]}", detail=tbtxt))
                break
        if result is not None:
            doctree, warn = result
            if not isinstance(doctree, nodes.document):
                vs.append(mk("C01:result-not-a-document", case, "nodes.document", type(doctree).__name__))
            # fault paths must be reported
            for name, spec in files.items():
                if spec.get("must_report") and name not in warn and name not in doctree.pformat():
                    vs.append(mk(f"C01:fault-not-reported:{spec['kind']}", {**case, "frontend": frontend},
                                 f"a warning / system message mentioning {name}", warn[-400:]))
    finally:
        if tmp:
            shutil.rmtree(tmp, ignore_errors=True)
        else:
            cleanup(files, sphinx_app().src)
    if acc is not None:
        text = case["text"]
        feats = []
        for tag, needle in (("directive", "{"), ("role", "}`"), ("html", "<"), ("frontmatter", "---\n"),
                            ("subst", "{{"), ("include", "include"), ("footnote", "[^"), ("inv", "inv:")):
            if needle in text:
                feats.append(tag)
        nontrivial = bool(feats) or bool(files)
        acc.case((frontend, case), nontrivial, [f"gen:{case.get('gen', '?')}"] + [f"reach:{f}" for f in feats],
                 sample={"gen": case.get("gen"), "frontend": frontend, "text": text[:400],
                         "cfg": case.get("cfg"), "files": {k: v["kind"] for k, v in files.items()}})
    return vs


# ------------------------------------------------------------------ generators

cfg_st = mdgen.config_st()


@st.composite
def doc_case(draw):
    cfg = draw(cfg_st)
    blocks = draw(mdgen.blocks_st(mdgen.FULL, wild=True, max_blocks=5))
    return {"gen": "doc", "text": mdgen.render(blocks), "cfg": cfg}


@st.composite
def soup_case(draw):
    return {"gen": "soup", "text": draw(soup.soup()), "cfg": draw(st.one_of(st.just({}), cfg_st))}


FM_LINES = [
    "title: T", "myst:", "  enable_extensions: [dollarmath, colon_fence]", "  enable_extensions: dollarmath",
    "  enable_extensions: [nosuch]", "  url_schemes: [http]", "  url_schemes: {http: null, x: 'https://x/{{path}}'}",
    "  url_schemes: {x: {classes: abc}}", "  url_schemes: 1", "  heading_anchors: 2", "  heading_anchors: null",
    "  heading_anchors: x", "  heading_anchors: 9", "  substitutions: {a: 1, b: '{{ a }}'}", "  substitutions: [1]",
    "  html_meta: {a: b}", "  html_meta: {a: 1}", "  heading_slug_func: os.getcwd", "  heading_slug_func: nosuch.mod.f",
    "  heading_slug_func: 1", "  suppress_warnings: [myst.header]", "  suppress_warnings: myst", "  inventories: {k: [u, p]}",
    "  inventories: 1", "  sub_delimiters: ['[', ']']", "  sub_delimiters: ab", "  bogus: 1", "  commonmark_only: true",
    "  gfm_only: false", "  disable_syntax: [table]", "  disable_syntax: table", "  all_links_external: yes",
    "  fence_as_directive: [python]", "  fence_as_directive: python", "  number_code_blocks: [python]",
    "  footnote_sort: false", "  footnote_transition: 1", "  words_per_minute: fast", "  title_to_header: true",
    "  ref_domains: [std]", "  ref_domains: std", "  update_mathjax: false", "  mathjax_classes: 1",
    "  highlight_code_blocks: false", "  enable_checkboxes: true", "  dmath_double_inline: true",
    "  linkify_fuzzy_links: false", "  links_external_new_tab: true",
    "myst: 1", "myst: [a]", "myst: null", "a: *x", "a: &x 1", "b: *x", "? [a, b]\n: c", "? {a: 1}\n: c",
    "a: !!binary aGk=", "a: !!set {x}", "a: !!python/object:os.system x", "a: !!timestamp 2020-01-01", "d: 2020-01-01",
    "- a", "[1,2]", "a: {b: [1, {c: 2020-01-01}]}", "a: \x07", "a: \x00", "\ttab: x", "html_meta: {a: b}",
    "html_meta: 1", "substitutions: {k: v}", "substitutions: 1", "a: 'unclosed", "a: b: c", "%YAML 1.1", "%TAG ! x",
    "date: 2020-01-01 10:00:00", "authors: [a, b]", "author: Me *md*", "abstract: '*md* [l](x)'", "dedication: x",
    "k: ~", "1: 2", "true: false", "key with spaces: v", "\U0001f600: x", "a: |\n  block", "a: >\n  folded",
    "title: '# h'", "title: [1]", "title: {a: b}", "a: [b, [c, {d: [e]}]]", "a: .inf", "a: 0x1F", "a: 1e3",
    "mystnb: {a: 1}", "...", "--- ", "a: !!float x", "a: !!int x", "a: !!omap [a: 1]", "a: !!pairs [a: 1]",
    "<<: *x", "<<: {a: 1}", "a: ?", "? a", ": a", "a: \"\\x\"", "a: \"\\UFFFFFFFF\"", "\ufeffa: b", "a: \u2028b",
]
BODIES = ["", "# Title\n\ntext {{ a }} {{ k }}\n", "[link](http://e.org) [w](x:y) <wiki:z>\n", "$a$ and\n\n:::{note}\nx\n:::\n",
          "| a |\n|---|\n| b |\n", "## H2\n\n[](#h2)\n\n```python\nx\n```\n", "[^a]\n\n[^a]: note\n", "- [ ] task\n",
          "{{ b }}\n", "text\n"]


FM_LINES += [
    "a: {2020-01-01: x}", "a: {1: 2, null: 3, true: 4, 1.5: 5}", "a: [{2020-01-01 10:00:00: x}]", "a: {? [1, 2] : x}",
    "a: {b: {2020-01-01: {c: !!binary aGk=}}}", "2020-01-01: x", "null: x", "1.5: x", "a: !!timestamp 2020-13-45",
    "author: {2020-01-01: x}", "date: {1: 2}", "a: &x [*x]", "a: &x {k: *x}", "a: &y [1, &z {b: *y}]", "a: 123456789012345678901234567890", "a: -.inf", "a: .nan",
]
MYST_LINES = [ln for ln in FM_LINES if ln.startswith("  ")]
TOP_LINES = [ln for ln in FM_LINES if not ln.startswith("  ") and ln != "myst:"]
BODIES_X = [
    "[link](http://e.org) [w](x:y) <wiki:z> <x:a/b#c> [t](wiki://[x) <http://[x> [u](x://[)\n",
    "# A\n\n## B\n\n### C\n\n[](#b) [^n] ~~s~~ $m$ {{ a }} {{ b }}\n\n[^n]: note\n\n```python\nx\n```\n\n:::{note}\nx\n:::\n",
    "www.e.org and - [ ] task\n\nTerm\n: def\n\n:field: v\n\n<img src=\"a.png\">\n\n<div class=\"admonition\">x</div>\n",
]


@st.composite
def front_case(draw):
    if draw(st.integers(0, 2)):
        # structured: a well-formed 'myst:' block whose entries are drawn from every field spelling, plus other keys
        top = draw(st.lists(st.sampled_from(TOP_LINES), max_size=3))
        myst = draw(st.lists(st.sampled_from(MYST_LINES), min_size=1, max_size=5))
        pos = draw(st.integers(0, len(top)))
        lines = top[:pos] + ["myst:"] + myst + top[pos:]
        text = "---\n" + "\n".join(lines) + "\n---\n\n" + draw(st.sampled_from(BODIES + BODIES_X + BODIES_X))
        return {"gen": "front", "text": text, "cfg": draw(st.one_of(st.just({}), cfg_st))}
    lines = draw(st.lists(st.sampled_from(FM_LINES), min_size=0, max_size=6))
    closer = draw(st.sampled_from(["---", "---", "...", "----", ""]))
    text = "---\n" + "\n".join(lines) + ("\n" if lines else "") + (closer + "\n" if closer else "") + "\n" + draw(
        st.sampled_from(BODIES))
    return {"gen": "front", "text": text, "cfg": draw(st.one_of(st.just({}), cfg_st))}


def _c07_block():
    from checks.c07_options import mutated_block, option_block

    return st.one_of(option_block(), mutated_block())


HOSTILE_ATTR_VALUES = ['"#x y"', '"|"', '">"', '"a: b"', '"a\nb"', '" lead"', '""', "'single'", "unquoted", '"a"b"',
                       '"' + "x" * 300 + '"', '"\'"', '"{{ x }}"', '"- a"', '"\\"', '"&amp;"', '"*md*"', '":"', '"---"']


HOSTILE_DESTS = [
            # (Sphinx: documents that exist - the project's own index, the document itself - with fragments nobody defined)
            "index.md#x", "index.md#", "doc.md#nosuch", "./index.md#a%20b", "index#x",
            "a" * 300, "d/" * 200 + "f.md", "a" * 5000 + ".md", "%00", "a%00b.md", "\\x00", "a\x00b", "f.md#" + "s" * 300,
            "../" * 50 + "x.md", "/", "//", ".", "..", "~", "C:\\x", "file:///etc/passwd", "a b.md", "é.md", "\U0001f600.md",
            "#", "##", "#a#b", "?q", "f.md?q#a", "x:", ":x", "://", "inv:", "inv:#", "inv:k", "inv:k:d:t:e#x", "inv:*#*",
            "inv:#\\*", "project:", "project:#", "path:", "path:/", "project:" + "a" * 300, "mailto:", "http:", "javascript:x",
            "<", ">", "a\tb", "\ufeff", "a\u2028b", "inv://[x", "inv://[x#y", "wiki://[x", "x://[y", "http://[x", "http://[::1]:99999/",
            "inv:k:[#x", "project://[x", "path://[x", "x://a]b", "wiki://a:b:c/d", "inv:#%", "inv:%zz#x", "x:%", "http://a:b/"]
HOSTILE_FORMS = ["[t]({d})", "[]({d})", "[t](<{d}>)", "<{d}>", "![a]({d})", "[t]: {d}\n\n[t]",
                                     "[t](project:{d})", "<project:{d}>", "[t](path:{d})", "<path:{d}>", "[t](inv:{d})", "<inv:a:b:c:d#{d}>",
                                     "```{{image}} {d}\n```", "```{{figure}} {d}\n```", "```{{include}} {d}\n```",
                                     "```{{literalinclude}} {d}\n```", "```{{download}} {d}\n```"]


@st.composite
def hostile_case(draw):
    k = draw(st.integers(0, 8))
    cfg = draw(cfg_st)
    ext = set(cfg["enable_extensions"])
    if k == 0:
        block = draw(_c07_block())
        name = draw(st.sampled_from(["note", "image", "code-block", "figure", "csv-table", "admonition", "include"]))
        arg = draw(st.sampled_from(["", "a.png", "python", "T"]))
        style = draw(st.integers(0, 1))
        if style:
            body = "---\n" + block + ("\n" if not block.endswith("\n") else "") + "---\n"
        else:
            body = "".join(":" + ln + "\n" for ln in block.split("\n"))
        text = f"```{{{name}}} {arg}\n{body}content\n```\n"
    elif k == 1:
        name = draw(st.one_of(st.sampled_from(["unknown", "", " ", "a b", "note}", "{note", "é", "x" * 100, "raw", "ref",
                                               "numref", "eq", "download", "term", "math", "abbr", "pep", "rfc",
                                               "sub-ref", "code", "c:func", "py:class", "index", "kbd", "any", "doc"]),
                              st.text(max_size=5)))
        content = draw(st.one_of(st.sampled_from(["x", "", "a <b>", "<a", "a>", "x (y", "!x", "~x", "1", "-1", "a`b"]),
                                 st.text(max_size=6).filter(lambda s: "`" not in s)))
        text = "para {" + name + "}`" + content + "` tail\n\n```{" + name + "} " + content + "\nbody\n```\n"
    elif k == 2:
        ext |= {"html_image", "html_admonition"}
        attrs = draw(st.lists(st.tuples(st.sampled_from(["src", "alt", "class", "width", "height", "align", "name",
                                                         "title", "id", "style", "SRC", "data-x"]),
                                        st.one_of(st.none(), st.sampled_from(HOSTILE_ATTR_VALUES))), max_size=5))
        a = " ".join(k if v is None else f"{k}={v}" for k, v in attrs)
        tag = draw(st.sampled_from(["img", "img", "div", "div"]))
        if tag == "img":
            text = draw(st.sampled_from(["<img {a}>\n", "para <img {a}> tail\n", "<img {a}/>\n", "<img {a}><img src=\"b\">\n"])).format(a=a)
        else:
            inner = draw(st.sampled_from(["text", "<p class=\"title\">T</p>\n<p>body</p>", "<div class=\"title\"></div>",
                                          "<p>*md* {{ x }}</p>", "# heading", "<img src>", "```{note}\nx\n```", "",
                                          "<p class=\"admonition-title\">" + "T" * 50 + "</p>", ":name: x", "---\na: b\n---"]))
            cls = draw(st.sampled_from(["admonition", "admonition note", "admonition  warning extra", "Admonition",
                                        "admonition\nnote"]))
            text = f'<div class="{cls}" {a}>\n{inner}\n</div>\n'
    elif k == 3:
        ext |= {"substitution"}
        cfg["substitutions"] = draw(st.sampled_from([
            {"a": "{{ b }}", "b": "{{ a }}"}, {"a": "{{ a }}"}, {"a": "```{note}\n{{ a }}\n```"}, {"a": 1, "b": None},
            {"a": "# heading"}, {"a": "{% for %}"}, {"a": "[^f]\n\n[^f]: x"}, {"a": {"nested": [1]}},
            {"a": "{{ env.docname }}"}, {"a": "x" * 1000}, {"a": "{{ b }}", "b": "{{ c }}", "c": "{{ a }}"}]))
        expr = draw(st.sampled_from(["a", "b", "missing", "1/0", "a | nosuchfilter", "a.x.y", "a(", "", " ", "a }} {{ b",
                                     "'x' * 3", "a | upper", "range(3) | list", "a[0]", "env", "env.app.srcdir",
                                     "().__class__", "a ~ b", "lipsum(1000)", "cycler", "namespace()", "a if b else c",
                                     "{'a': 1}", "a is defined", "\"}}\""]))
        text = "{{ " + expr + " }}\n\ninline {{ " + expr + " }} text\n"
    elif k == 4:
        dest = draw(st.sampled_from(HOSTILE_DESTS))
        form = draw(st.sampled_from(HOSTILE_FORMS))
        text = form.format(d=dest) + "\n"
    elif k == 5:
        text = draw(st.sampled_from([
            "> ---\n", "> ***\n> text\n", "- ***\n", "```{note}\n---\n```\n", "1. ---\n", "> # h\n> ---\n", "[^a]: ---\n\n[^a]\n",
            "Term\n: ---\n", ":field: ---\n", "***\n", "***\n\n***\n", "# h\n\n***\n", "text\n\n***\n", "***\n\ntext\n",
            "# h\n\n***\n\n## h2\n", ":::{note}\n***\n:::\n", "| a |\n|---|\n| *** |\n", "<div>\n\n***\n\n</div>\n"]))
        ext |= {"deflist", "fieldlist", "colon_fence"}
    elif k == 6:
        text = draw(st.sampled_from([
            "```{figure-md}\n![a](b)\n```\n", "```{figure-md}\ntext\n```\n", "```{figure-md}\n```\n",
            "```{toctree}\nnosuch\n```\n", "```{toctree}\n:glob:\n*\n```\n", "```{only} html\n# h\n```\n",
            "```{glossary}\nterm\n  def\n```\n", "```{code-block}\n:emphasize-lines: 9\nx\n```\n",
            "```{literalinclude} nosuch.py\n```\n", "```{math}\n:label: l\nx\n```\n$$x$$ (l)\n", "```{index} a\n```\n",
            "```{versionadded} 1\nx\n```\n", "```{deprecated}\n```\n", "```{productionlist}\na: b\n```\n",
            "```{autosummary}\n```\n", "```{py:function} f(x)\ndoc\n```\n", "```{c:function} int f(\n```\n",
            "```{cpp:class} template<\n```\n", "```{js:function} f(\n```\n", "```{rst:directive} x\n```\n",
            "```{option} -x\n```\n", "```{program} p\n```\n", "```{confval} c\n:type: x\n```\n", "```{tabularcolumns} |l|\n```\n",
            "```{centered} x\n```\n", "```{hlist}\n- a\n```\n", "```{acks}\n- a\n```\n", "```{codeauthor} x\n```\n",
            "```{seealso}\nx\n```\n", "```{sourcecode} x\ny\n```\n", "```{highlight} nosuchlang\n```\n\n```\nx\n```\n",
            "{numref}`x` {eq}`y` {doc}`z` {download}`a` {term}`t` {ref}`r` {any}`a` {py:func}`f` {keyword}`k` {option}`-x`\n",
            "{sub-ref}`today` {sub-ref}`wordcount-words` {sub-ref}`nosuch`\n", "{abbr}`x` {abbr}`(y)` {index}`a; b`\n",
            "{pep}`x` {rfc}`y` {pep}`8` {rfc}`1#a`\n", "{math}`a` {eq}`nosuch` {code}`x` {raw}`x` {kbd}`a-b`\n",
            "```{role} myrole(raw)\n:format: html\n```\n\n{myrole}`<b>`\n", "```{default-role} math\n```\n",
            "```{role} x(nosuch)\n```\n", "```{role}\n```\n", "```{class} c\n```\n\npara\n", "```{title} T\n```\n",
            "```{meta}\n:keywords: a\n```\n", "```{sectnum}\n```\n# h\n", "```{contents}\n```\n# h\n## h2\n",
            "```{target-notes}\n```\n[a](http://x)\n", "```{replace} x\n```\n", "```{unicode} 0x41\n```\n", "```{date}\n```\n",
            "```{header}\nh\n```\n```{footer}\nf\n```\n", "```{table} T\n| a |\n|---|\n```\n", "```{table}\ntext\n```\n",
            "```{list-table}\n- a\n```\n", "```{list-table}\n* - a\n  - b\n* - c\n```\n", "```{csv-table}\n:file: nosuch.csv\n```\n",
            "```{csv-table}\n:url: http://127.0.0.1:1/x\n```\n", "```{raw} html\n:file: nosuch\n```\n", "```{raw}\n```\n",
            "```{line-block}\na\n  b\n```\n", "```{parsed-literal}\n*a*\n```\n", "```{epigraph}\nq\n\n-- a\n```\n",
            "```{sidebar} T\n:subtitle: s\nx\n```\n", "```{topic} T\nx\n```\n", "```{rubric} r\n```\n", "```{compound}\nx\n```\n",
            "```{container} c\nx\n```\n", "```{image} a.png\n:target: x\n:scale: 50 %\n```\n", "```{figure} a.png\n:figwidth: image\ncap\n\nlegend\n```\n",
            "```{math}\n```\n", "```{code} python\n:number-lines: x\ny\n```\n", "```{include}\n```\n", "```{include} a b\n```\n",
        ]))
    elif k == 7:
        # deep nesting of containers up to the generator's bound
        n = draw(st.integers(1, 40))
        kind = draw(st.sampled_from(["> ", "- ", "1. ", "  - "]))
        text = "".join(kind * i + "x\n" for i in range(1, n)) if kind != "  - " else "".join("  " * i + "- x\n" for i in range(n))
    else:
        parts = draw(st.lists(st.sampled_from([
            "[^a]", "[^a]: x", "[^a]: y", "[^1]", "[^1]: one", "[^b]: [^b]", "[^c]: [^d]\n\n[^d]: [^c]", "[^e]:\n    ```{note}\n    [^e]\n    ```",
            "(t)=", "(t)=\n# h", "(t)=\n(t)=\n", "[](#t)", "[](#nosuch)", "# a\n# a\n[](#a)", "{#i}\n# h", "{#i}\npara", "[x]{#i}",
            "$$a$$ (l)", "$$b$$ (l)", "[](#l)", "{eq}`l`", "```{math}\n:label: l\n```", "[x]: y", "[x]: z", "[x]",
            "| a | b |\n|---|\n| c |", "| a |\n|---|\n| c | d |", "|a|\n|-|", "a | b\n- | -", "Term\n: d\n: e\n\n: f", ":f:\n:g: h",
            "{.c #i k=v}\n> q", "{.c}\n- l", "{#x}\n```\ncode\n```", "{a=b}\n| t |\n|---|", "![a](b){w=1 h=x a=nosuch}", "`c`{l=python}", "`c`{.x #y}",
            "[s]{.c}", "[s]{", "{}", "{.}", "{#}", "{k=}", "{=v}", "\\begin{equation}\nx\n\\end{equation}", "\\begin{nosuch}\n\\end{nosuch}",
            "$x", "$ x $", "1$x$2", "$$", "$$ $$", "$$\nx", "+++", "+++ meta *x*", "% comment", "%", "- [ ]", "- [x] t", "- [ ]\n  - [x] n",
            "~~s~~", "~~~\ncode", "--", "...", "(c) (tm) +-", "'q' \"q\"", "www.e.org http://e.org e@e.org",
            "[^\u00b2]", "[^\u00b2]: two", "[^\u0661]", "[^\u0661]: one", "[^\u2460]: c", "[^\u2460]", "[^01]: x", "[^01]", "[^-1]: x", "[^1.5]: y",
            "[^A]: u", "[^a ]: v", "[^10]: ten", "[^10]", "[^a]: a\n\n    [^n]: nested", "> [^q]: in quote", "[^q]",
            # a footnote label that is also the name of another explicit target (docutils then withdraws the name from both)
            "(a)=\npara a", "{#a}\npara", "```{note}\n:name: a\nn\n```", "```{eval-rst}\n.. _a:\n\npara\n```", "(1)=\npara",
            "```{eval-rst}\n.. [#] anonymous rst footnote\n\nref [#]_\n```", "```{eval-rst}\n.. [#]\n```", "```{eval-rst}\n.. [*] symbol\n\nref [*]_\n```",
        ]), min_size=1, max_size=6))
        text = "\n\n".join(parts) + "\n"
        ext |= set(mdgen.ALL_EXTENSIONS)
    cfg["enable_extensions"] = sorted(ext)
    return {"gen": f"hostile{k}", "text": text, "cfg": cfg}


@st.composite
def clash_case(draw):
    """One name used by two or three constructs that each register it with docutils (footnote, citation-like numeric
    label, '(name)=' target, '{#name}' attribute, directive :name:, rST target / footnote in eval-rst, heading, math
    label), in any order, referenced or not: docutils withdraws a clashing name from *both* nodes, so transforms meet
    nodes without names."""
    name = draw(st.sampled_from(["a", "a", "1", "b c", "A", "2024"]))
    slug = name.replace(" ", "-")
    makers = [
        f"[^{slug}]: footnote text", f"[^{slug}]: footnote text", f"x [^{slug}] y", f"({slug})=\npara target", "{#" + slug + "}\npara attr",
        "```{note}\n:name: " + slug + "\nbody\n```", "```{eval-rst}\n.. _" + slug + ":\n\nrst para\n```", f"# {name}",
        "$$\nx\n$$ (" + slug + ")", "```{eval-rst}\n.. [#" + slug + "] rst auto footnote\n\nref [#" + slug + "]_\n```",
        "```{eval-rst}\n.. [#] anonymous\n\nref [#]_\n```", "```{figure} i.png\n:name: " + slug + "\ncap\n```", f"[](#{slug})",
        f"[^{slug}]: second definition", "[" + slug + "]{#" + slug + "}",
    ]
    parts = draw(st.lists(st.sampled_from(makers), min_size=2, max_size=5))
    cfg = draw(cfg_st)
    cfg["enable_extensions"] = sorted(set(cfg["enable_extensions"]) | {"attrs_block", "attrs_inline", "dollarmath", "amsmath"})
    return {"gen": "clash", "text": "\n\n".join(parts) + "\n", "cfg": cfg}


FILE_KINDS = ["missing", "dir", "undecodable", "binary", "empty", "self", "mutual", "valid", "valid"]


@st.composite
def fault_case(draw):
    kind = draw(st.sampled_from(FILE_KINDS))
    files = {}
    name = draw(st.sampled_from(["inc.md", "sub/inc.md", "inc file.md", "inc.txt"]))
    spelling = draw(st.sampled_from(["```{{include}} {n}\n{o}```", ":::{{include}} {n}\n{o}:::",
                                     "```{{eval-rst}}\n.. include:: {n}\n{ro}```",
                                     "```{{literalinclude}} {n}\n{o}```", "```{{csv-table}}\n:file: {n}\n```",
                                     "```{{raw}} html\n:file: {n}\n```", "```{{figure}} {n}\n```"]))
    opts = draw(st.sampled_from(["", "", ":literal:\n", ":code: python\n", ":start-after: MARK\n", ":end-before: MARK\n",
                                 ":start-line: 1\n:end-line: 3\n", ":start-line: 99\n", ":heading-offset: 2\n",
                                 ":relative-images:\n", ":relative-docs: x\n", ":encoding: ascii\n", ":encoding: nosuch\n",
                                 ":number-lines:\n:literal:\n", ":number-lines: x\n:literal:\n", ":tab-width: x\n",
                                 ":class: c\n:name: n\n:literal:\n", ":start-after: nosuch\n"]))
    valid = "# Included\n\ntext MARK more\n\n![i](img.png) [d](doc.md)\n\n```{note}\nnested\n```\n"
    if kind == "missing":
        files[name] = {"kind": "missing", "must_report": True}
    elif kind == "dir":
        files[name] = {"kind": "dir", "must_report": True}
    elif kind == "undecodable":
        files[name] = {"kind": "bytes", "content": "ok \xff\xfe\x80 bad \xc3\x28\n", "must_report": False}
    elif kind == "binary":
        files[name] = {"kind": "bytes", "content": "\x00\x01\x02\x89PNG\r\n\x1a\n\x00" * 5}
    elif kind == "empty":
        files[name] = {"kind": "text", "content": ""}
    elif kind == "self":
        files[name] = {"kind": "text", "content": f"self\n\n```{{include}} {os.path.basename(name)}\n```\n"}
    elif kind == "mutual":
        other = "other.md"
        rel = "../other.md" if "/" in name else other
        back = name
        files[name] = {"kind": "text", "content": f"one\n\n```{{include}} {rel}\n```\n"}
        files[other] = {"kind": "text", "content": f"two\n\n```{{include}} {back}\n```\n"}
    else:
        files[name] = {"kind": "text", "content": valid}
    ro = "".join("   " + ln + "\n" for ln in opts.splitlines() if ln.split(":")[1] in (
        "literal", "code", "start-after", "end-before", "start-line", "end-line", "encoding", "number-lines", "tab-width"))
    text = "before\n\n" + spelling.format(n=name, o=opts, ro=ro) + "\n\nafter\n"
    if not ("{{include}}" in spelling or ".. include::" in spelling):
        # only the include directive is documented to report unreadable files in both front ends
        for spec in files.values():
            spec.pop("must_report", None)
    case = {"gen": "fault:" + kind, "text": text, "cfg": {"enable_extensions": ["colon_fence"]}, "files": files}
    if draw(st.integers(0, 3)) == 0:
        ikind = draw(st.sampled_from(["missing", "dir", "binary", "empty", "badheader", "valid"]))
        iname = "objects.inv"
        if ikind == "missing":
            files[iname] = {"kind": "missing"}
        elif ikind == "dir":
            files[iname] = {"kind": "dir"}
        elif ikind == "binary":
            files[iname] = {"kind": "bytes", "content": "\x00\xff" * 20}
        elif ikind == "empty":
            files[iname] = {"kind": "text", "content": ""}
        elif ikind == "badheader":
            files[iname] = {"kind": "bytes", "content": "# Sphinx inventory version 2\n# Project: p\n# Version: 1\n"
                                                         "# The remainder of this file is compressed using zlib.\nnotzlib"}
        else:
            import zlib

            body = zlib.compress(b"x py:function 1 a.html#$ -\n").decode("latin-1")
            files[iname] = {"kind": "bytes", "content": "# Sphinx inventory version 2\n# Project: p\n# Version: 1\n"
                                                         "# The remainder of this file is compressed using zlib.\n" + body}
        case["inventories"] = {"k": ("https://e.org", iname)}
        case["text"] += "\n[](inv:#x) <inv:k:py:*#x> [t](inv:nosuch#x)\n"
    return case


def all_cases():
    return st.one_of(doc_case(), doc_case(), soup_case(), soup_case(), front_case(), hostile_case(), hostile_case(),
                     fault_case(), clash_case())


def sub_docutils(acc, shard, nshards, tier, seed):
    n = 300 if tier == "quick" else 8000
    hyp_run(acc, all_cases(), lambda c: check_case(acc, c, "docutils"), max_examples=n,
            seed=shard_seed(seed, shard), is_known=known().matches)


def sub_sphinx(acc, shard, nshards, tier, seed):
    n = 150 if tier == "quick" else 3000
    hyp_run(acc, all_cases(), lambda c: check_case(acc, c, "sphinx"), max_examples=n,
            seed=shard_seed(seed, shard, 1), is_known=known().matches)


# ------------------------------------------------------------------ coverage-guided campaign (thorough tier)

FUZZ_PRESETS = [
    {"enable_extensions": sorted(mdgen.ALL_EXTENSIONS)},
    {"enable_extensions": sorted(mdgen.ALL_EXTENSIONS), "heading_anchors": 3, "footnote_sort": False,
     "substitutions": {"k": "v *em*", "blk": "- a\n- b", "cyc": "{{ cyc }}"}, "fence_as_directive": ["note", "python"],
     "url_schemes": {"http": None, "w": {"url": "https://w/{{path}}#{{fragment}}", "classes": ["c"]}}},
    {},
    {"commonmark_only": True},
    {"enable_extensions": ["colon_fence", "fieldlist", "deflist", "attrs_block", "attrs_inline", "html_image", "html_admonition"],
     "title_to_header": True, "enable_checkboxes": True, "all_links_external": True},
]
FUZZ_DICT = ["```", "~~~", ":::", "{note}", "{include}", "{eval-rst}", "{figure-md}", "{code-block}", "{list-table}", "{csv-table}",
             "{role}", "{raw}", "{math}", "{toctree}", "{contents}", "{admonition}", "{div}", "---\n", "myst:\n", "substitutions:",
             "html_meta:", "{{", "}}", "[^", "]:", "](", "](#", "](inv:", "<inv:", "<project:", "<path:", "(x)=", "{#", "{.", ":name:",
             ":class:", ":file:", ":literal:", ":start-after:", ":heading-offset:", "$$", "\\begin{", "\\end{", "&amp;", "<div", "<img ",
             "class=\"admonition", "<!--", "-->", "| ", "|-", "- [ ]", "1. ", "> ", "# ", "***", "+++", "% ", "{sub-ref}`", "{ref}`",
             "{abbr}`", "`", "~~", "www.", "Term\n: ", ":field: ", "\n\n", "\t", "\x00", "\r", "\u2028", "\x0c"]
FUZZ_SEEDS = [
    b"\x00# Title\n\n```{note}\n:class: c\n\nbody [^a] {{ k }}\n```\n\n[^a]: note\n",
    b"\x01---\nmyst:\n  substitutions:\n    a: b\n---\n(t)=\n## H\n\n[](#t) <inv:#x> $$\nx\n$$ (l)\n",
    b"\x04:::{div}\n<div class=\"admonition\">\n<img src=\"a\">\n</div>\n:::\n\nTerm\n: def\n\n| a | b |\n|---|--:|\n| 1 | 2 |\n",
]


def decode_fuzz_case(data: bytes) -> dict:
    """bytes -> C01 case (shared by the fuzz target and by the parent that re-checks saved artifacts)."""
    preset = FUZZ_PRESETS[data[0] % len(FUZZ_PRESETS)] if data else {}
    return {"gen": "atheris", "text": data[1:].decode("utf-8", "replace"), "cfg": dict(preset)}


def hyp_fuzz_test(callback):
    """A Hypothesis test over all_cases() whose `.hypothesis.fuzz_one_input(bytes)` maps a byte string to one case."""
    from hypothesis import HealthCheck, given, settings

    @settings(database=None, deadline=None, suppress_health_check=list(HealthCheck))
    @given(all_cases())
    def test(case):
        callback(case)

    return test


def decode_hyp_case(data: bytes):
    got = []
    try:
        hyp_fuzz_test(got.append).hypothesis.fuzz_one_input(data)
    except Exception:  # noqa: BLE001
        pass
    return got[0] if got else None


def sub_atheris(acc, shard, nshards, tier, seed):
    from vlib import fuzz

    if shard % 2:
        # structure-aware: the bytes drive Hypothesis' choices for C01's own generators
        fuzz.run_campaign(acc, "fuzz/fuzz_parse_hyp.py", runs=12000, seed=shard_seed(seed, shard, 9),
                          recheck=lambda c: check_case(None, c, "docutils") if c is not None else [], known=known(),
                          max_len=600, decode=decode_hyp_case, timeout=2400, extra_args=["-len_control=0"])
        return

    fuzz.run_campaign(acc, "fuzz/fuzz_parse.py", runs=25000, seed=shard_seed(seed, shard, 9),
                      recheck=lambda c: check_case(None, c, "docutils"), known=known(), max_len=160,
                      dictionary=FUZZ_DICT, seeds=FUZZ_SEEDS if shard % 4 == 0 else None, decode=decode_fuzz_case,
                      timeout=2400, extra_args=["-len_control=0"])


def sub_links_enum(acc, shard, nshards, tier, seed):
    """Every hostile destination x every link / image / directive spelling (exhaustive), all extensions on; docutils front
    end in every shard, Sphinx front end in the odd ones."""
    kn = known()
    cfg = {"enable_extensions": sorted(mdgen.ALL_EXTENSIONS), "url_schemes": {"http": None, "wiki": {"url": "https://w/{{path}}"}, "x": None},
           "heading_anchors": 2}
    i = 0
    for dest in HOSTILE_DESTS:
        for form in HOSTILE_FORMS:
            i += 1
            if i % nshards != shard:
                continue
            case = {"gen": "links_enum", "text": form.format(d=dest) + "\n", "cfg": dict(cfg)}
            for fe in (("docutils", "sphinx") if shard % 2 else ("docutils",)):
                for v in check_case(acc, case, fe):
                    if kn.matches(v):
                        acc.known_hits[v["signature"]] += 1
                    elif len(acc.violations) < 8 and all(v["signature"] != w["signature"] for w in acc.violations):
                        acc.violations.append(v)
    # front-matter values of every YAML type for the keys the renderer itself reads (title with title_to_header, selected
    # per document or globally; html_meta / substitutions in both spellings), before every kind of first heading
    for key in ("title", "html_meta", "substitutions", "myst"):
        for val in FM_VALUES:
            for how in ("front", "config", "off"):
                for body in ("", "# H\n", "## H2\n\ntext {{ a }}\n"):
                    i += 1
                    if i % nshards != shard:
                        continue
                    fm = f"{key}: {val}\n" + ("myst:\n  title_to_header: true\n" if how == "front" and key != "myst" else "")
                    c2 = {"enable_extensions": ["substitution"], **({"title_to_header": True} if how == "config" else {})}
                    case = {"gen": "fm_enum", "text": "---\n" + fm + "---\n" + body, "cfg": c2}
                    for fe in (("docutils", "sphinx") if shard % 2 else ("docutils",)):
                        for v in check_case(acc, case, fe):
                            if kn.matches(v):
                                acc.known_hits[v["signature"]] += 1
                            elif len(acc.violations) < 8 and all(v["signature"] != w["signature"] for w in acc.violations):
                                acc.violations.append(v)
    acc.exhaustive = True


FM_VALUES = ["T", "123", "1.5", "true", "null", "~", "0", "[a, b]", "{a: b}", "2024-01-01", "2024-01-01 10:00:00", "''", "\"*em* `c`\"",
             "|\n  multi\n  line", "!!binary aGk=", "- x", "[]", "{}", "{1: 2}", "[[a]]", "!!set {a, b}", ".inf", "0x10", "1e3"]


def plan(tier):
    subs = [Sub("links_enum", sub_links_enum, 4),
            Sub("docutils", sub_docutils, 10 if tier == "quick" else 16),
            Sub("sphinx", sub_sphinx, 6 if tier == "quick" else 16)]
    if tier == "thorough":
        subs.append(Sub("atheris", sub_atheris, 6))
    return subs


def replay(sub, input):
    fe = input.get("frontend") or ("sphinx" if sub == "sphinx" else "docutils")
    return check_case(None, input, fe)
