"""C02 - the doctree is a faithful image of the Markdown token tree."""

from __future__ import annotations

import html
import re

from hypothesis import strategies as st

from vlib import front, mdgen, skeleton
from vlib.core import Acc, Sub, hyp_run, shard_seed
from vlib.findings import Known

PROPERTY = "C02"
RULE = (
    "Hypothesis documents over the static syntax (paragraphs, ATX / setext headings, block quotes, bullet / ordered "
    "lists with start and delimiter, tight / loose, fenced / indented code, HTML blocks and inline HTML, thematic "
    "breaks, GFM tables with alignments, strikethrough, task lists, math blocks / labelled / inline, amsmath, "
    "definition and field lists, targets, comments, divs, attribute spans; inline: Unicode text incl. punctuation "
    "soup, emphasis / strong, code spans, links / autolinks / reference links, images, hard / soft breaks), nesting "
    "drawn recursively, in three modes (strict CommonMark, GFM via the linkify-less route, MyST with all static "
    "extensions and drawn smartquotes / replacements), rendered by the docutils parser and by the Sphinx parser "
    "(pre-transform trees). Oracle: differential against an independent reference renderer - the token tree of "
    "create_md_parser(cfg, RendererHTML).parse(text) is mapped to an abstract skeleton (KIND, attributes, children | "
    "text) and the doctree is mapped to the same abstraction by a generic walker (sections transparent, system "
    "messages / targets / comments dropped, adjacent text merged); the two must be equal: every leaf once, in order, "
    "verbatim, under corresponding containers, with link destination, image uri / alt / title, list start / "
    "delimiter, cell alignment and code language carried over; docutils and Sphinx skeletons must also equal each "
    "other; plus (headings) every sequence of heading levels up to length 4 / 5 with marked content, exhaustively, "
    "to check source order of leaves across any section structure. Cases containing dynamic syntax (roles, directives, footnotes, substitutions) are excluded (counted). "
    "Non-trivial: skeleton depth >= 3 or >= 2 distinct container kinds; distinct by skeleton."
)
ASSUMPTIONS = [
    "link destinations are compared where the statement is unambiguous: URL links, '#' links (normalised text), "
    "docutils links without scheme (refname); Sphinx document links and inv: / project: / path: schemes are don't-care",
    "code text is compared up to one final newline; syntax highlighting is off in the docutils front end (with it, "
    "pygments strips blank lines: recorded finding, root cause in docutils' Lexer)",
    "in Sphinx an absent code language is filled with the project's highlight_language ('default' / 'none' == absent)",
]
FLOOR = {"quick": 300, "thorough": 8000}

EXT_STATIC = ["amsmath", "attrs_inline", "attrs_block", "colon_fence", "deflist", "dollarmath", "fieldlist", "strikethrough", "tasklist"]
DEFAULT_SCHEMES = {"http", "https", "mailto", "ftp"}
SCHEME = re.compile(r"^([a-zA-Z][a-zA-Z0-9+.-]*):")

_known = None


def known() -> Known:
    global _known
    if _known is None:
        _known = Known(PROPERTY)
    return _known


def canon_dest(md, x, mode, frontend, doc_side):
    if x is None:
        return None
    if doc_side:
        x = html.unescape(x)
    if mode != "myst":
        return x
    if x.startswith("#"):
        return md.normalizeLinkText(x)
    m = SCHEME.match(x)
    scheme = m.group(1) if m else None
    if scheme in DEFAULT_SCHEMES:
        return x
    if scheme in ("inv", "path", "project"):
        return None
    if frontend == "docutils":
        return x
    # Sphinx rewrites destinations that name an existing file of the project (document name, download); any other
    # destination is handed on as written (percent-decoded), fragment included
    from urllib.parse import unquote

    path_part = unquote(x).split("#", 1)[0]
    if scheme is None and path_part not in ("", ".", "index.md", "index", "./index.md"):
        return unquote(x)
    return None


def canon(md, sk, mode, frontend, doc_side):
    out = []
    for it in sk:
        if it[0] == "LINK":
            out.append(("LINK", canon_dest(md, it[1], mode, frontend, doc_side), canon(md, it[2], mode, frontend, doc_side)))
        elif it[0] == "RAW" and mode == "gfm" and not doc_side:
            # GFM mode neutralises the disallowed raw HTML tags (that rule is C17's; its scanner model is applied here)
            from checks.c17_html_blocks import model_filter

            out.append(("RAW", model_filter(it[1])))
        elif it[0] == "CODEBLOCK" and frontend == "sphinx" and it[1] in ("default", "none"):
            out.append(("CODEBLOCK", "", it[2]))
        else:
            out.append(tuple(canon(md, p, mode, frontend, doc_side) if isinstance(p, list) and p and isinstance(p[0], tuple) else p
                             for p in it))
    return out


def blank_dontcare(exp, got):
    """Where the expected skeleton leaves a link destination unspecified (None), blank it in the observed one too."""
    if len(exp) != len(got):
        return got
    out = []
    for x, y in zip(exp, got):
        if x[0] != y[0] or len(x) != len(y):
            out.append(y)
        elif x[0] == "LINK":
            out.append(("LINK", None if x[1] is None else y[1], blank_dontcare(x[2], y[2])))
        else:
            out.append(tuple(blank_dontcare(p, q) if isinstance(p, list) and isinstance(q, list) and p and q and isinstance(p[0], tuple)
                             and isinstance(q[0], tuple) else q for p, q in zip(x, y)))
    return out


def escaped_refuris(doc):
    from docutils import nodes

    return [n["refuri"] for n in doc.findall(nodes.reference) if "refuri" in n and html.unescape(n["refuri"]) != n["refuri"]]


def run_mode(text, mode, smart, project, highlight=False):
    """-> (md for the token side, {frontend: doc})"""
    from markdown_it.renderer import RendererHTML

    from myst_parser.config.main import MdParserConfig
    from myst_parser.parsers.mdit import create_md_parser

    docs = {}
    if mode == "commonmark":
        cfg = {"commonmark_only": True}
        md = create_md_parser(MdParserConfig(**cfg), RendererHTML)
        docs["docutils"], _ = front.docutils_parse(text, settings={"myst_commonmark_only": True, "myst_highlight_code_blocks": highlight})
    elif mode == "gfm":
        md = front.gfm_markdown_it(MdParserConfig(gfm_only=True), RendererHTML)
        docs["docutils"], _ = front.gfm_parse(text, extra_cfg={"highlight_code_blocks": False})
    else:
        exts = EXT_STATIC + [x for x in smart if not x.startswith("html_")] + [x for x in smart if x.startswith("html_")]
        cfg = {"enable_extensions": exts}
        md = create_md_parser(MdParserConfig(**cfg), RendererHTML)
        docs["docutils"], _ = front.docutils_parse(text, settings={"myst_enable_extensions": exts, "myst_highlight_code_blocks": highlight})
    if project is not None and mode != "gfm":
        project.app.env.myst_config = MdParserConfig(**cfg)
        docs["sphinx"], _ = front.sphinx_parse_pre(text, project, "index")
    return md, docs


def check_case(acc, case, project=None) -> list[dict]:
    mk = (acc or Acc(PROPERTY, "replay")).violation
    text, mode = case["text"], case["mode"]
    own = None
    if project is None and case.get("sphinx"):
        own = project = front.SphinxProject()
    try:
        try:
            md, docs = run_mode(text, mode, case.get("smart", []), project, bool(case.get("highlight")))
        except Exception as exc:  # noqa: BLE001
            if acc is not None:
                acc.excluded[f"render-raises:{type(exc).__name__}"] += 1
            return []
    finally:
        if own is not None:
            own.close()
    vs = []
    try:
        exp_raw = skeleton.tokens_to_skeleton(md, text)
    except skeleton.Unsupported as exc:
        if acc is not None:
            acc.excluded[f"dynamic-syntax:{exc}"] += 1
        return []
    got = {}
    for fe, doc in docs.items():
        try:
            got[fe] = canon(md, skeleton.doctree_to_skeleton(doc), mode, fe, True)
        except skeleton.Unsupported as exc:
            vs.append(mk(f"C02:doctree-node-without-token:{exc}", case, "only nodes that correspond to tokens", {"frontend": fe, "node": str(exc)}))
            continue
        exp = canon(md, exp_raw, mode, fe, False)
        got[fe] = blank_dontcare(exp, got[fe])
        if got[fe] != exp:
            where = skeleton.first_diff(exp, got[fe])
            sig = f"C02:doctree-differs-from-token-tree:{where.split(':')[0].split(']')[-1] if where else '?'}"
            if case.get("highlight") and sig.endswith("CODEBLOCK.1"):
                sig = "C02:code-text-altered-by-highlighting"   # recorded finding (only replayed, never drawn: highlighting is off)
            vs.append(mk(sig, case,
                         {"frontend": fe, "where": where}, {"expected": _clip(exp), "observed": _clip(got[fe])}))
        esc = escaped_refuris(doc)
        if esc:
            vs.append(mk("C02:link-destination-html-escaped", case, "refuri == link destination", {"frontend": fe, "refuri": esc[:3]}))
    if "docutils" in got and "sphinx" in got:
        a = canon(md, got["docutils"], mode, "sphinx", False)
        b = blank_dontcare(a, got["sphinx"])
        a = blank_dontcare(b, a)
        if a != b:
            where = skeleton.first_diff(a, b)
            vs.append(mk("C02:docutils-and-sphinx-differ", case, {"where": where}, {"docutils": _clip(a), "sphinx": _clip(b)}))
    if acc is not None:
        d = skeleton.depth(exp_raw)
        ks = skeleton.kinds(exp_raw)
        containers = ks & {"QUOTE", "UL", "OL", "TABLE", "DL", "FL", "DIV", "EM", "STRONG", "LINK", "SPAN"}
        acc.case(repr(exp_raw) + mode, d >= 3 or len(containers) >= 2, [f"mode:{mode}", f"depth:{min(d, 8)}"] + sorted("kind:" + k for k in ks)
                 + [f"frontends:{len(docs)}"], sample={"mode": mode, "text": text[:500]})
    out, seen = [], set()
    for v in vs:
        if v["signature"] not in seen:
            seen.add(v["signature"])
            out.append(v)
    return out


def _clip(sk, n=600):
    s = repr(sk)
    return s if len(s) <= n else s[:n] + "..."


# --------------------------------------------------------------------------- strategies


@st.composite
def case_st(draw):
    mode = draw(st.sampled_from(["commonmark", "gfm", "myst", "myst", "myst"]))
    feats = {"commonmark": mdgen.STATIC, "gfm": mdgen.GFM, "myst": mdgen.MYST_STATIC}[mode]
    wild = draw(st.booleans())
    blocks = draw(mdgen.blocks_st(feats, wild=wild, depth=3, max_blocks=5))
    smart = draw(st.lists(st.sampled_from(["smartquotes", "replacements"]), unique=True, max_size=2)) if mode == "myst" else []

    return {"text": mdgen.render(blocks), "mode": mode, "smart": smart}


def sub_docutils(acc, shard, nshards, tier, seed):
    n = 250 if tier == "quick" else 5000
    hyp_run(acc, case_st(), lambda c: check_case(acc, c), max_examples=n,
            seed=shard_seed(seed, shard, 2), is_known=known().matches)


def sub_both(acc, shard, nshards, tier, seed):
    n = 120 if tier == "quick" else 2000
    with front.sphinx_project() as project:
        hyp_run(acc, case_st(), lambda c: check_case(acc, {**c, "sphinx": True}, project), max_examples=n,
                seed=shard_seed(seed, shard, 22), is_known=known().matches)


def sub_headings(acc, shard, nshards, tier, seed):
    """Every sequence of heading levels (1-4, length <= 4; thorough: 1-6, length <= 5) with a marked paragraph, an emphasis
    and a list under each heading: sections are transparent in the skeleton, so this checks that every leaf stays in
    source order whatever the section structure does (exhaustive)."""
    import itertools

    kn = known()
    top, maxlen = (4, 4) if tier == "quick" else (6, 5)
    i = 0
    for n in range(1, maxlen + 1):
        for seq in itertools.product(range(1, top + 1), repeat=n):
            i += 1
            if i % nshards != shard:
                continue
            parts = []
            for k, L in enumerate(seq):
                parts.append("#" * L + f" title{k}\n\npara{k} *em{k}*\n\n- item{k}\n")
            for mode in ("commonmark", "myst"):
                for v in check_case(acc, {"text": "\n".join(parts), "mode": mode, "smart": []}):
                    if kn.matches(v):
                        acc.known_hits[v["signature"]] += 1
                    elif len(acc.violations) < 8 and all(v["signature"] != x["signature"] for x in acc.violations):
                        acc.violations.append(v)
    acc.exhaustive = True


CODE_LANGS = ["python", "c", "json", "default", "", "mylang", "python3.99", "mermaid", "plantuml", "c++", "{note}", "Python", "text"]


def sub_codelang(acc, shard, nshards, tier, seed):
    """Fenced code in every language spelling (known to pygments, unknown to it, none) x nesting x fence character, with
    syntax highlighting *on* in the docutils front end (its default), in both front ends: the language is carried over
    whether or not a lexer exists for it.  The code is one line, so the recorded finding about blank lines stripped by the
    highlighter does not interfere (exhaustive)."""
    kn = known()
    i = 0
    with front.sphinx_project() as project:
        for lang in CODE_LANGS:
            for nest in ("", "> ", "- ", "1. "):
                for fence in ("```", "~~~"):
                    for mode in ("commonmark", "myst"):
                        i += 1
                        if i % nshards != shard or (mode == "myst" and lang.startswith("{")):
                            continue
                        pad = " " * len(nest)
                        text = f"before\n\n{nest}{fence}{lang}\n{pad}x = 1\n{pad}{fence}\n\nafter\n"
                        case = {"text": text, "mode": mode, "smart": [], "highlight": True, "sphinx": True}
                        for v in check_case(acc, case, project):
                            if kn.matches(v):
                                acc.known_hits[v["signature"]] += 1
                            elif len(acc.violations) < 8 and all(v["signature"] != x["signature"] for x in acc.violations):
                                acc.violations.append(v)
    acc.exhaustive = True


def plan(tier):
    return [Sub("headings", sub_headings, 4), Sub("docutils", sub_docutils, 8), Sub("both", sub_both, 4),
            Sub("codelang", sub_codelang, 2)]


def replay(sub, input):
    return check_case(None, input)
