"""C10 - heading anchors follow the GitHub slug rule, are unique, match myst-anchors,
resolve through '#anchor' links, and a custom slug function replaces the default."""

from __future__ import annotations

import itertools
import os
import re
import shutil
import tempfile

from hypothesis import strategies as st

from vlib import front
from vlib.core import Acc, Sub, hyp_run, shard_seed
from vlib.findings import Known

PROPERTY = "C10"
RULE = (
    "(enum) every sequence of <= 5 headings over the six titles ['a', 'a-1', 'A', 'a b', '`a`', 'a!'] "
    "(9330 sequences, heading level cycling 1,2,3, anchor depth 2) exhaustively; (random) Hypothesis title "
    "sequences over Unicode letters, CJK, punctuation, emphasis / code spans (incl. padded code spans) / links, "
    "levels 1-6, anchor depth 0-7, headings also inside block quotes and list items; default slug function, "
    "the dotted-path test function and a raising function. Oracle (three-way): reference model of the "
    "documented GitHub rule with '-N' appended to the *base* slug; the anchors printed by "
    "myst_parser.cli.print_anchors for the same file and level; '[](#slug)' for every assigned slug resolves "
    "to its own heading. Non-trivial: the sequence contains a duplicate slug base or a collision with a "
    "suffixed form; distinct by (titles, levels, depth, function)."
)
ASSUMPTIONS = [
    "title text = concatenation of the heading's text and inline-code contents (known by construction)",
    "the model's slug rule is asserted only when the title text has no leading/trailing white space (the "
    "documentation does not say whether it is trimmed); agreement with myst-anchors is asserted always",
    "headings inside directive bodies are not generated (the CLI cannot see them); titles avoid extension syntax",
]
FLOOR = {"quick": 1000, "thorough": 20000}

_known = None


def known() -> Known:
    global _known
    if _known is None:
        _known = Known(PROPERTY)
    return _known


def model_slugify(title: str) -> str:
    out = []
    for ch in title.lower():
        if ch == " ":
            out.append("-")
        elif ch.isalnum() or ch in "_-" or "一" <= ch <= "鿿":
            out.append(ch)
    return "".join(out)


def model_unique(base: str, taken: set) -> str:
    slug = base
    i = 1
    while slug in taken:
        slug = f"{base}-{i}"
        i += 1
    taken.add(slug)
    return slug


def cli_anchors(text: str, level: int):
    """[(level, id)] printed by myst-anchors for this text (stdin -> stdout)."""
    import contextlib
    import io
    import sys

    from myst_parser.cli import print_anchors

    out = io.StringIO()
    old_stdin = sys.stdin
    sys.stdin = io.StringIO(text)
    try:
        with contextlib.redirect_stdout(out):
            print_anchors(["-l", str(level)])
    finally:
        sys.stdin = old_stdin
    html = out.getvalue()
    return [(int(m.group(1)), _unescape(m.group(2))) for m in re.finditer(r'<h(\d) id="([^"]*)"', html)]


def _unescape(s):
    import html

    return html.unescape(s)


def build_doc(case):
    """case: {heads: [{level, md, text, wrap}], depth, func} -> markdown text."""
    lines = []
    for i, h in enumerate(case["heads"]):
        hd = "#" * h["level"] + " " + h["md"]
        if h.get("wrap") == "quote":
            lines.append("> " + hd)
        elif h.get("wrap") == "list":
            lines.append("- " + hd)
        else:
            lines.append(hd)
        lines.append("")
        lines.append(f"Para{i}.")
        lines.append("")
    return "\n".join(lines)


FUNCS = {
    "default": None,
    "reverse": "myst_parser.config.main._test_slug_func",
    "raising": "vlib.slugfuncs.raising",
    "upper": "vlib.slugfuncs.upper_dash",
}


def check_case(acc, case) -> list[dict]:
    from docutils import nodes

    mk = (acc or Acc(PROPERTY, "replay")).violation
    depth = case["depth"]
    func = case.get("func", "default")
    text = build_doc(case)
    settings = {"myst_heading_anchors": depth}
    tmp_inc = None
    parse_kw = {}
    N = case.get("inc_offset") or 0
    if N:
        # the same headings, written N levels higher in a file that is included with ':heading-offset: N': the document is
        # the same document, so anchors (depth limit, suffixes) are those of the flat text
        flat = text
        tmp_inc = tempfile.mkdtemp(prefix="verif-c10-")
        with open(os.path.join(tmp_inc, "inc.md"), "w") as fh:
            fh.write(build_doc({**case, "heads": [{**h, "level": h["level"] - N} for h in case["heads"]]}))
        text = "```{include} inc.md\n:heading-offset: " + str(N) + "\n```\n"
        parse_kw = {"source_path": os.path.join(tmp_inc, "main.md")}
    try:
        return _check_case(acc, case, mk, depth, func, text, settings, parse_kw, flat if N else text)
    finally:
        if tmp_inc:
            shutil.rmtree(tmp_inc, ignore_errors=True)


def _check_case(acc, case, mk, depth, func, text, settings, parse_kw, flat) -> list[dict]:
    from docutils import nodes

    if FUNCS[func]:
        settings["myst_heading_slug_func"] = FUNCS[func]
    # ---- model
    taken: set = set()
    exp = []  # per heading: slug or None
    unspecified_model = False
    for h in case["heads"]:
        if h["level"] > depth:
            exp.append(None)
            continue
        t = h["text"]
        if func == "default":
            if t != t.strip():
                unspecified_model = True
            base = model_slugify(t)
        elif func == "reverse":
            base = t[::-1]
        elif func == "upper":
            base = t.upper().replace(" ", "-")
        else:
            exp.append(None)
            continue
        exp.append(model_unique(base, taken))
    vs = []
    # ---- first pass: what slugs are assigned
    try:
        doc1, warn1 = front.docutils_parse(text, settings=settings, **parse_kw)
    except Exception as exc:  # noqa: BLE001
        return [mk(f"C10:render-raises:{type(exc).__name__}", case, "document", f"{type(exc).__name__}: {exc}")]
    heads = []
    for n in doc1.findall(lambda n: isinstance(n, (nodes.section, nodes.rubric))):
        heads.append(n)
    heads.sort(key=lambda n: n.line or 0)
    got = [n.get("slug") for n in heads]
    if len(heads) != len(case["heads"]):
        return [mk("C10:heading-count", case, len(case["heads"]), len(heads))]
    wl = front.warning_lines(warn1)
    slug_warnings = [w for w in wl if "[myst.heading_slug]" in w]
    if func == "raising":
        n_exp = sum(1 for h in case["heads"] if h["level"] <= depth)
        if any(g is not None for g in got):
            vs.append(mk("C10:slug-despite-failing-function", case, [None] * len(got), got))
        if len(slug_warnings) != n_exp:
            vs.append(mk("C10:failing-function-warning-count", case, n_exp, slug_warnings))
    else:
        if slug_warnings:
            vs.append(mk("C10:unexpected-heading-slug-warning", case, [], slug_warnings))
        # depth limit
        for h, g in zip(case["heads"], got):
            if (h["level"] > depth) != (g is None):
                vs.append(mk("C10:anchor-depth-not-respected", case, exp, got))
                break
        else:
            # uniqueness
            real = [g for g in got if g is not None]
            if len(set(real)) != len(real):
                vs.append(mk("C10:duplicate-slugs", case, "pairwise distinct", got))
            if not unspecified_model and got != exp:
                vs.append(mk("C10:slug-differs-from-model", case, exp, got))
            elif unspecified_model and acc is not None:
                acc.unspecified["title-with-outer-whitespace"] += 1
    # ---- CLI agreement (default function only; level 0 prints nothing and is skipped by the CLI's plugin)
    if func == "default" and 1 <= depth:
        try:
            cli = cli_anchors(flat, depth)
        except Exception as exc:  # noqa: BLE001
            cli = None
            vs.append(mk(f"C10:cli-raises:{type(exc).__name__}", case, "anchors", str(exc)))
        if cli is not None:
            mine = [(h["level"], g) for h, g in zip(case["heads"], got) if g is not None]
            if mine != cli:
                # call-site specific signature: the tree behaves exactly like "same rule, but the title text
                # is not trimmed" (default_slugify lacks the plugin's .strip())
                taken2: set = set()
                nostrip = [(h["level"], model_unique(model_slugify(h["text"]), taken2))
                           for h in case["heads"] if h["level"] <= depth]
                taken3: set = set()
                strip = [(h["level"], model_unique(model_slugify(h["text"].strip()), taken3))
                         for h in case["heads"] if h["level"] <= depth]
                if unspecified_model and mine == nostrip and cli == strip:
                    vs.append(mk("C10:differs-from-myst-anchors:title-outer-whitespace-not-trimmed", case, cli, mine))
                else:
                    vs.append(mk("C10:differs-from-myst-anchors", case, cli, mine))
    # ---- every assigned slug resolves to its own heading
    real = [(i, g) for i, g in enumerate(got) if g]
    if real and func != "raising":
        from urllib.parse import quote

        # precondition: the link text must denote the slug, i.e. survive markdown-it's own link
        # normalisation round trip (a custom function may produce e.g. '%', '<', '\\' which cannot be written)
        from markdown_it import MarkdownIt

        _md = MarkdownIt()
        writable = []
        for i, g in real:
            if _md.normalizeLinkText(_md.normalizeLink("#" + g)) == "#" + g and not re.search(r"[<>\\\n]", g) \
                    and g == g.strip():
                writable.append((i, g))
            elif acc is not None:
                acc.unspecified["slug-not-writable-as-link"] += 1
        real = writable
        links = "\n\n".join(f"L{i} [](<#{g}>)" for i, g in real)
        try:
            doc2, warn2 = front.docutils_publish(text + "\n" + links + "\n", settings=settings, **parse_kw)
        except Exception as exc:  # noqa: BLE001
            return vs + [mk(f"C10:publish-raises:{type(exc).__name__}", case, "document",
                            f"{type(exc).__name__}: {exc}")]
        by_slug = {}
        for n in doc2.findall(lambda n: isinstance(n, (nodes.section, nodes.rubric))):
            if n.get("slug"):
                by_slug[n["slug"]] = n
        paras = {p.astext().split()[0]: p for p in doc2.findall(nodes.paragraph) if re.match(r"L\d+ ", p.astext() + " ")}
        for i, g in real:
            p = paras.get(f"L{i}")
            refs = list(p.findall(nodes.reference)) if p is not None else []
            target = by_slug.get(g)
            # slugs containing characters that are not URL-safe are written in <...> form; markdown-it
            # percent-encodes and myst decodes them again
            if target is None or len(refs) != 1 or refs[0].get("refid") not in target["ids"]:
                # explicit names take priority by design (C09): a slug equal to another heading's
                # docutils name is still an implicit target, so no exception applies here
                vs.append(mk("C10:anchor-link-does-not-resolve-to-own-heading", case,
                             {"slug": g, "ids": target["ids"] if target is not None else None},
                             {"refid": refs[0].get("refid") if refs else None,
                              "warnings": [w for w in front.warning_lines(warn2) if "myst" in w][:3]}))
                break
    if acc is not None:
        bases = [model_slugify(h["text"]) for h in case["heads"] if h["level"] <= depth]
        nontrivial = len(set(bases)) != len(bases) or any(re.search(r"-\d+$", b) for b in bases)
        acc.case(case, nontrivial and func != "raising", [f"func:{func}", f"depth:{depth}"],
                 sample={"titles": [h["md"] for h in case["heads"]], "levels": [h["level"] for h in case["heads"]],
                         "depth": depth, "func": func, "slugs": got})
    out, seen = [], set()
    for v in vs:
        if v["signature"] not in seen:
            seen.add(v["signature"])
            out.append(v)
    return out


SIX = [("a", "a"), ("a-1", "a-1"), ("A", "A"), ("a b", "a b"), ("`a`", "a"), ("a!", "a!")]


def sub_enum(acc, shard, nshards, tier, seed):
    kn = known()
    i = 0
    for n in range(0, 6):
        for seq in itertools.product(SIX, repeat=n):
            i += 1
            if i % nshards != shard:
                continue
            if tier == "quick" and n == 5 and (i // nshards) % 4:
                continue  # quick: all sequences up to 4, a quarter of length 5
            case = {"heads": [{"level": 1 + (k % 3), "md": md, "text": tx} for k, (md, tx) in enumerate(seq)],
                    "depth": 2, "func": "default"}
            for v in check_case(acc, case):
                if kn.matches(v):
                    acc.known_hits[v["signature"]] += 1
                elif len(acc.violations) < 8 and all(v["signature"] != w["signature"] for w in acc.violations):
                    acc.violations.append(v)
    # the same through an include with a heading offset: every sequence of <= 3 headings over levels 2-4, offsets 1 and 2
    # (levels stay >= 1 in the file), every anchor depth 1-4
    for n in range(1, 4):
        for seq in itertools.product(SIX[:3], repeat=n):
            for lv in itertools.product((2, 3, 4), repeat=n):
                for off in (1, 2):
                    if min(lv) - off < 1:
                        continue
                    for depth in (1, 2, 3, 4):
                        i += 1
                        if i % nshards != shard:
                            continue
                        case = {"heads": [{"level": L, "md": md, "text": tx} for L, (md, tx) in zip(lv, seq)],
                                "depth": depth, "func": "default", "inc_offset": off}
                        for v in check_case(acc, case):
                            if kn.matches(v):
                                acc.known_hits[v["signature"]] += 1
                            elif len(acc.violations) < 8 and all(v["signature"] != w["signature"] for w in acc.violations):
                                acc.violations.append(v)
    acc.exhaustive = tier == "thorough"


WORDCH = st.sampled_from(list("abcABC019-") + list("éÜßñ中文字日本かな") + list("!?.,:;()+=~@%^'\"«»—") + ["-1", "-2"])
word = st.lists(WORDCH, min_size=1, max_size=5).map("".join)


@st.composite
def title_piece(draw):
    k = draw(st.integers(0, 9))
    w = draw(word)
    if k <= 4:
        return w, w
    if k == 5:
        return f"*{w}*" if not (w.startswith("*") or w[0] in "!?.,:;()" or w[-1] in "!?.,:;()") else w, w
    if k == 6:
        return f"`{w}`", w
    if k == 7:
        pad = draw(st.sampled_from(["  ", "   "]))
        return f"`{pad}{w}{pad}`", f"{pad[1:]}{w}{pad[1:]}"
    if k == 8:
        return f"[{w}](https://e.org)", w
    if draw(st.integers(0, 3)) == 0:
        return "![alt](i.png)", ""  # contributes nothing to the title text (outer white space when first/last)
    return w + " " + w, w + " " + w


@st.composite
def title(draw):
    pieces = draw(st.lists(title_piece(), min_size=1, max_size=3))
    md = " ".join(p[0] for p in pieces)
    tx = " ".join(p[1] for p in pieces)
    return md, tx


@st.composite
def random_case(draw):
    pool = draw(st.lists(title(), min_size=1, max_size=3))
    heads = []
    for _ in range(draw(st.integers(1, 7))):
        md, tx = draw(st.one_of(st.sampled_from(pool), st.sampled_from(pool), title(), st.sampled_from(SIX)))
        heads.append({"level": draw(st.integers(1, 6)), "md": md, "text": tx,
                      "wrap": draw(st.sampled_from([None, None, None, None, "quote", "list"]))})
    return {"heads": heads, "depth": draw(st.sampled_from([0, 1, 2, 2, 3, 4, 5, 6, 7, 7])),
            "func": draw(st.sampled_from(["default", "default", "default", "reverse", "upper", "raising"]))}


def sub_random(acc, shard, nshards, tier, seed):
    n = 600 if tier == "quick" else 8000
    hyp_run(acc, random_case(), lambda c: check_case(acc, c), max_examples=n,
            seed=shard_seed(seed, shard, 3), is_known=known().matches)


def _render_with(md, text):
    import io

    from docutils.frontend import get_default_settings
    from docutils.utils import new_document

    from myst_parser.parsers.docutils_ import Parser

    st_ = get_default_settings(Parser)
    for k, v in front.base_settings(io.StringIO()).items():
        setattr(st_, k, v)
    document = new_document("<string>", st_)
    md.options["document"] = document
    md.render(text)
    return document


def check_reuse(acc, case) -> list[dict]:
    """Anchors are unique *per document*: a parser / renderer object that renders several documents one after the other
    gives each of them the anchors a fresh parser gives it, and document.myst_slugs holds that document's anchors only."""
    from docutils import nodes

    from myst_parser.config.main import MdParserConfig
    from myst_parser.mdit_to_docutils.base import DocutilsRenderer
    from myst_parser.parsers.mdit import create_md_parser

    mk = (acc or Acc(PROPERTY, "replay")).violation
    cfg = MdParserConfig(heading_anchors=case["depth"])
    shared = create_md_parser(cfg, DocutilsRenderer)
    vs = []
    for k, heads in enumerate(case["docs"]):
        text = "\n\n".join("#" * lv + " " + t for lv, t in heads) + "\n"
        try:
            d_shared = _render_with(shared, text)
            d_fresh = _render_with(create_md_parser(cfg, DocutilsRenderer), text)
        except Exception as exc:  # noqa: BLE001
            return [mk(f"C10:render-raises:{type(exc).__name__}", case, "document", f"{type(exc).__name__}: {exc}")]

        def slugs(doc):
            hs = sorted(doc.findall(lambda n: isinstance(n, (nodes.section, nodes.rubric))), key=lambda n: n.line or 0)
            return [n.get("slug") for n in hs]

        a, b = slugs(d_fresh), slugs(d_shared)
        if a != b:
            vs.append(mk("C10:anchors-depend-on-earlier-document", case, {"document": k, "anchors": a}, {"anchors": b}))
            break
        if sorted(getattr(d_shared, "myst_slugs", {})) != sorted(x for x in a if x):
            vs.append(mk("C10:slug-table-holds-other-documents-anchors", case, sorted(x for x in a if x),
                         sorted(getattr(d_shared, "myst_slugs", {}))))
            break
    if acc is not None:
        titles = [t for heads in case["docs"] for _lv, t in heads]
        acc.case(("reuse", repr(case)), len(case["docs"]) >= 2 and len(set(titles)) < len(titles), ["reuse", f"docs:{len(case['docs'])}"],
                 sample=case)
    return vs


def sub_reuse(acc, shard, nshards, tier, seed):
    """Every ordered pair (thorough: triple) of documents with one or two headings over the titles {a, b, 'a b'} at levels
    1-2, rendered by one parser object (exhaustive)."""
    kn = known()
    titles = ["a", "b", "a b"]
    docs = [[(1, t)] for t in titles] + [[(1, t), (lv, u)] for t in titles for u in titles for lv in (1, 2)]
    i = 0
    for seq in itertools.product(docs, repeat=2 if tier == "quick" else 3):
        i += 1
        if i % nshards != shard:
            continue
        for v in check_reuse(acc, {"depth": 2, "docs": [list(map(list, d)) for d in seq]}):
            if kn.matches(v):
                acc.known_hits[v["signature"]] += 1
            elif len(acc.violations) < 8 and all(v["signature"] != w["signature"] for w in acc.violations):
                acc.violations.append(v)
    acc.exhaustive = True


def plan(tier):
    return [Sub("enum", sub_enum, 16), Sub("random", sub_random, 16), Sub("reuse", sub_reuse, 2 if tier == "quick" else 8)]


def replay(sub, input):
    if sub == "reuse":
        return check_reuse(None, input)
    return check_case(None, input)
