"""C11 - footnotes are numbered, linked and collected consistently."""

from __future__ import annotations

import itertools
import re

from hypothesis import strategies as st

from vlib import front
from vlib.core import Acc, Sub, hyp_run, shard_seed
from vlib.findings import Known

PROPERTY = "C11"
RULE = (
    "Arrangements of footnote references and definitions: labels from {a, b, c, A, note, x-y, 1, 2, 3, 10, superscript-2} "
    "plus labels that are never defined; headings, '(name)=' targets and '{#name}' ids that merely share a label's name; definitions at top level, inside block quotes, list items and admonition "
    "bodies, before / between / after the referencing paragraphs; references in paragraphs and inside definitions, in "
    "any order and multiplicity; duplicate definitions; unreferenced definitions; footnote_sort x "
    "footnote_transition. (enum) every arrangement of <= 3 definitions over 4 labels x reference orders, exhaustively; "
    "(random) Hypothesis documents with up to 8 definitions and 10 paragraphs; (sphinx, thorough tier + a slice in quick) "
    "the same cases through the in-process Sphinx reader. Oracle: reference model of the numbering (numeric labels keep "
    "their number; with sorting, auto labels take the smallest unused numbers in order of first reference, unreferenced "
    "ones last in definition order); each reference (identified by a unique word before it) with a defined label has "
    "the refid of the footnote that carries the label name and displays that footnote's label; backrefs = exactly the "
    "ids of those references; labels pairwise distinct; with sorting all footnotes are the last children of the "
    "document in ascending label order, preceded by exactly one 'footnotes' transition iff configured and other content "
    "exists; without sorting each definition stays under the container it was written in; exactly one [ref.footnote] "
    "warning per duplicate and per unreferenced definition, at the definition's line; every non-duplicate definition's "
    "marker text present exactly once. Non-trivial: >= 3 defined labels with reference order != definition order, or a "
    "numeric label colliding with an auto number, or a duplicate / unreferenced definition; distinct by case."
)
RULE += (" Documents also contain headings / '(name)=' targets / '{#name}' ids that merely share a footnote label's name (a definition is a duplicate only of an earlier footnote; auto numbers pass over numbers that are names already); 'other content' for the transition means anything but footnotes and warning messages.")
ASSUMPTIONS = [
    "with footnote_sort disabled the numbering order is docutils' (definition order): the statement's 'order of first "
    "reference' is asserted only with sorting enabled; consistency (reference shows its footnote's label) is asserted always",
    "references whose label has no definition, and the text of a dropped duplicate, are unconstrained (statement silent)",
]
FLOOR = {"quick": 400, "thorough": 8000}

LABELS = ["a", "b", "c", "A", "note", "x-y", "1", "2", "3", "10", "²"]
MISSING = ["zz", "7"]

_known = None


def known() -> Known:
    global _known
    if _known is None:
        _known = Known(PROPERTY)
    return _known


# --------------------------------------------------------------------------- build


def build(case):
    """case: {"items": [...], "sort": bool, "transition": bool}
    item: {"t": "para", "refs": [label,...]} | {"t": "def", "label": L, "wrap": w, "refs": [...]}
    Returns (text, info)."""
    lines = []
    refs = []     # (ref word, label, container ("P<i>" | "D<k>"), in_dup)
    defs = []     # {"k", "label", "line", "wrap", "dup": bool}
    seen = set()
    rw = 0
    pi = 0
    other_names = []
    if case.get("via") == "front":
        # the two options selected per document (front matter), over a global configuration that says the opposite
        lines += ["---", "myst:", "  footnote_sort: " + str(bool(case["sort"])).lower(),
                  "  footnote_transition: " + str(bool(case["transition"])).lower(), "---"]

    def ref_text(labels, container, dup):
        nonlocal rw
        parts = []
        for L in labels:
            word = f"rw{rw}q"
            rw += 1
            refs.append({"word": word, "label": L, "in": container, "dup": dup})
            parts.append(f"{word} [^{L}]")
        return " ".join(parts)

    for it in case["items"]:
        if lines:
            lines.append("")
        if it["t"] == "name":
            # a heading / target / attribute id that merely has the same name as a footnote label (not a definition)
            L = it["label"]
            lines.append({"heading": f"## {L}", "target": f"({L})=\nnamed para", "attr": "{#" + L + "}\nnamed para"}[it["kind"]])
            other_names.append((it["kind"], L))
            continue
        if it["t"] == "para":
            body = ref_text(it["refs"], f"P{pi}", False)
            lines.append(f"Para{pi}m {body} end".replace("  ", " "))
            pi += 1
        else:
            k = len(defs)
            L = it["label"]
            dup = L in seen
            seen.add(L)
            body = f"[^{L}]: Def{k}m " + ref_text(it.get("refs", []), f"D{k}", dup)
            body = body.rstrip()
            w = it.get("wrap")
            line = len(lines) + 1
            if w == "quote":
                lines.append("> " + body)
            elif w == "list":
                lines.append("- " + body)
            elif w == "note":
                lines.append("```{note}")
                lines.append(body)
                lines.append("```")
                line += 1
            else:
                lines.append(body)
            defs.append({"k": k, "label": L, "line": line, "wrap": w, "dup": dup})
    return "\n".join(lines) + "\n", {"refs": refs, "defs": defs, "nparas": pi, "other_names": other_names}


def model(info, sort):
    """Expected label per defined footnote name (sort=True only)."""
    defs = [d for d in info["defs"] if not d["dup"]]
    live_refs = [r for r in info["refs"] if not r["dup"]]
    manual = [d["label"] for d in defs if d["label"].isdigit()]
    autos = [d["label"] for d in defs if not d["label"].isdigit()]
    first = {}
    for i, r in enumerate(live_refs):
        first.setdefault(r["label"], i)
    order = sorted(autos, key=lambda L: first.get(L, 10 ** 6)) if sort else list(autos)
    # docutils' auto-numbering passes over every number that is already a *name* in the document (a manual footnote,
    # but equally a heading titled "1"): the order is what the property fixes, not consecutiveness
    used = set(manual) | {L for _kind, L in info.get("other_names", []) if L.isdigit()}
    labels = {L: L for L in manual}
    n = 1
    for L in order:
        while str(n) in used:
            n += 1
        labels[L] = str(n)
        n += 1
    return labels


def check_doc(mk, case, doc, warn, info, frontend):
    from docutils import nodes

    vs = []
    sort, trans = case["sort"], case["transition"]
    defs = [d for d in info["defs"] if not d["dup"]]
    dups = [d for d in info["defs"] if d["dup"]]
    live_refs = [r for r in info["refs"] if not r["dup"]]
    defined = {d["label"] for d in defs}

    footnotes = list(doc.findall(nodes.footnote))
    by_name = {}
    for f in footnotes:
        for nm in list(f["names"]) + list(f.get("dupnames", [])):
            by_name.setdefault(nm, []).append(f)
    # a '(name)=' / '{#name}' with the same name as a label is a genuine duplicate *explicit target* for docutils (both
    # lose the name): for those labels only 'exactly one footnote, text not lost' is asserted
    clashing = {L for kind, L in info.get("other_names", []) if kind in ("target", "attr")}
    if clashing:
        for d in defs:
            if d["label"] in clashing:
                fs = by_name.get(d["label"], [])
                marker = f"Def{d['k']}m"
                if len(fs) != 1 or doc.astext().count(marker) != 1:
                    vs.append(mk("C11:footnote-text-lost", case, f"{marker} once", {"footnotes": len(fs), "in_document": doc.astext().count(marker)}))
        if len(footnotes) != len(defs):
            vs.append(mk("C11:footnote-count", case, len(defs), len(footnotes)))
        return vs
    # every non-duplicate definition exists exactly once, with its text
    for d in defs:
        fs = by_name.get(d["label"], [])
        if len(fs) != 1:
            vs.append(mk("C11:definition-missing-or-duplicated", case, f"one footnote named {d['label']!r}", len(fs)))
            return vs
        marker = f"Def{d['k']}m"
        if fs[0].astext().count(marker) != 1 or doc.astext().count(marker) != 1:
            vs.append(mk("C11:footnote-text-lost", case, f"{marker} once, inside footnote {d['label']!r}",
                         {"in_footnote": fs[0].astext().count(marker), "in_document": doc.astext().count(marker)}))
    if len(footnotes) != len(defs):
        vs.append(mk("C11:footnote-count", case, len(defs), len(footnotes)))
    # labels
    lab = {}
    for f in footnotes:
        if not len(f) or not isinstance(f[0], nodes.label):
            vs.append(mk("C11:footnote-without-label", case, "label first", f.pformat()[:200]))
            return vs
        lab[id(f)] = f[0].astext()
    if len(set(lab.values())) != len(lab):
        vs.append(mk("C11:labels-not-distinct", case, "pairwise distinct labels", sorted(lab.values())))
    exp = model(info, sort)
    got = {d["label"]: lab[id(by_name[d["label"]][0])] for d in defs}
    for L in defined:
        if L.isdigit() and got[L] != L:
            vs.append(mk("C11:numeric-label-changed", case, {L: L}, {L: got[L]}))
    if sort and got != exp:
        vs.append(mk("C11:numbering", case, exp, got))
    # references
    ref_nodes = {}
    for rn in doc.findall(nodes.footnote_reference):
        prev = None
        idx = rn.parent.index(rn)
        if idx > 0 and isinstance(rn.parent[idx - 1], nodes.Text):
            m = re.search(r"(rw\d+q)\s*$", str(rn.parent[idx - 1]))
            prev = m.group(1) if m else None
        if prev is None:
            vs.append(mk("C11:reference-without-marker", case, "reference preceded by its marker word", rn.pformat()[:200]))
            continue
        if prev in ref_nodes:
            vs.append(mk("C11:reference-duplicated", case, f"one reference after {prev}", 2))
        ref_nodes[prev] = rn
    per_fn = {}
    for r in live_refs:
        if r["label"] not in defined:
            continue
        rn = ref_nodes.get(r["word"])
        if rn is None:
            vs.append(mk("C11:reference-lost", case, f"footnote_reference after {r['word']} -> {r['label']!r}", None))
            continue
        target = by_name[r["label"]][0]
        if rn.get("refid") not in target["ids"]:
            vs.append(mk("C11:reference-points-elsewhere", case, {"ref": r["word"], "label": r["label"], "ids": target["ids"]},
                         {"refid": rn.get("refid")}))
        elif rn.astext() != lab[id(target)]:
            vs.append(mk("C11:reference-shows-wrong-number", case, {"ref": r["word"], "shows": lab[id(target)]}, rn.astext()))
        per_fn.setdefault(r["label"], []).extend(rn["ids"])
    for d in defs:
        f = by_name[d["label"]][0]
        if sorted(f["backrefs"]) != sorted(per_fn.get(d["label"], [])):
            vs.append(mk("C11:backrefs", case, {d["label"]: sorted(per_fn.get(d["label"], []))}, sorted(f["backrefs"])))
    # placement
    top = list(doc.children)
    trans_nodes = [n for n in doc.findall(nodes.transition) if "footnotes" in n["classes"]]
    if sort:
        k = len(top)
        while k > 0 and isinstance(top[k - 1], nodes.footnote):
            k -= 1
        tail = top[k:]
        if len(tail) != len(footnotes):
            where = [f.parent.tagname for f in footnotes if f.parent is not doc]
            vs.append(mk("C11:footnotes-not-collected-at-end", case, f"{len(footnotes)} footnotes as last children",
                         {"tail": len(tail), "elsewhere": where[:4]}))
        else:
            keys = []
            for f in tail:
                t = lab[id(f)]
                try:
                    keys.append((0, int(t), t))
                except ValueError:
                    keys.append((1, 0, t))
            if keys != sorted(keys):
                vs.append(mk("C11:footnotes-not-in-label-order", case, "ascending labels", [x[2] for x in keys]))
            others = top[:k]
            # the transition separates the footnotes from the *content*; a document that has none (only footnotes, and
            # possibly warning messages, which are no content and vanish when suppressed) must not begin with one
            content = [n for n in others if not isinstance(n, nodes.system_message)
                       and not (isinstance(n, nodes.transition) and "footnotes" in n["classes"])]
            want_tr = bool(trans and footnotes and content)
            has_tr = bool(others) and isinstance(others[-1], nodes.transition) and "footnotes" in others[-1]["classes"]
            if want_tr and not (has_tr and len(trans_nodes) == 1):
                vs.append(mk("C11:footnote-transition", case, "exactly one 'footnotes' transition before the footnotes",
                             {"directly_before": has_tr, "count": len(trans_nodes)}))
            if not want_tr and trans_nodes:
                vs.append(mk("C11:footnote-transition", case, "no 'footnotes' transition", len(trans_nodes)))
    else:
        if trans_nodes:
            vs.append(mk("C11:footnote-transition", case, "no 'footnotes' transition without sorting", len(trans_nodes)))
        want_parent = {None: ("document", "section"), "quote": ("block_quote",), "list": ("list_item",), "note": ("note",)}
        for d in defs:
            f = by_name[d["label"]][0]
            if f.parent.tagname not in want_parent[d["wrap"]]:
                vs.append(mk("C11:definition-moved", case, {d["label"]: want_parent[d["wrap"]]}, f.parent.tagname))
    # warnings
    wl = [w for w in front.warning_lines(warn) if "[ref.footnote]" in w]
    referenced = {r["label"] for r in live_refs}
    unref = [d for d in defs if d["label"] not in referenced]
    exp_w = sorted([("dup", d["line"]) for d in dups] + [("unref", d["line"]) for d in unref])
    got_w = []
    for w in wl:
        m = re.match(r"^(?:.*?):(\d+): ", w)
        ln = int(m.group(1)) if m else None
        got_w.append(("dup" if "Duplicate footnote definition" in w else "unref" if "is not referenced" in w else "other", ln))
    if sorted(x[0] for x in got_w) != sorted(x[0] for x in exp_w):
        vs.append(mk("C11:footnote-warning-count", case, exp_w, sorted(got_w, key=str)))
    elif frontend == "docutils" and sorted(got_w, key=str) != sorted(exp_w, key=str):
        vs.append(mk("C11:footnote-warning-line", case, exp_w, sorted(got_w, key=str)))
    return vs


def classify(case, info):
    defs = [d for d in info["defs"] if not d["dup"]]
    live = [r for r in info["refs"] if not r["dup"]]
    first = {}
    for i, r in enumerate(live):
        first.setdefault(r["label"], i)
    autos = [d["label"] for d in defs if not d["label"].isdigit()]
    reordered = len(defs) >= 3 and sorted(autos, key=lambda L: first.get(L, 10 ** 6)) != autos
    manual = {d["label"] for d in defs if d["label"].isdigit()}
    collide = bool(manual & {str(i + 1) for i in range(len(autos))}) and bool(autos)
    dup = any(d["dup"] for d in info["defs"])
    unref = any(d["label"] not in first for d in defs)
    classes = []
    if reordered:
        classes.append("reordered")
    if collide:
        classes.append("manual-collides-with-auto")
    if dup:
        classes.append("duplicate")
    if unref:
        classes.append("unreferenced")
    if any(r["label"] not in {d["label"] for d in defs} for r in live):
        classes.append("missing-definition")
    if any(r["in"].startswith("D") for r in live):
        classes.append("ref-inside-definition")
    if any(d["wrap"] for d in defs):
        classes.append("definition-in-container")
    classes.append(f"sort:{case['sort']}")
    classes.append(f"transition:{case['transition']}")
    return bool(reordered or collide or dup or unref), classes


def check_case(acc, case, project=None) -> list[dict]:
    mk = (acc or Acc(PROPERTY, "replay")).violation
    text, info = build(case)
    front_matter = case.get("via") == "front"
    g_sort, g_trans = (not case["sort"], not case["transition"]) if front_matter else (case["sort"], case["transition"])
    settings = {"myst_footnote_sort": g_sort, "myst_footnote_transition": g_trans,
                "myst_enable_extensions": ["attrs_block"]}
    vs = []
    frontend = "sphinx" if project is not None or case.get("frontend") == "sphinx" else "docutils"
    try:
        if frontend == "docutils":
            doc, warn = front.docutils_publish(text, settings=settings)
        else:
            own = None
            if project is None:
                own = project = front.SphinxProject()
            try:
                project.app.env.myst_config = project.app.env.myst_config.copy(
                    footnote_sort=g_sort, footnote_transition=g_trans, enable_extensions=["attrs_block"])
                doc, warn = project.read_doc("index", text)
            finally:
                if own is not None:
                    own.close()
    except Exception as exc:  # noqa: BLE001
        return [mk(f"C11:render-raises:{type(exc).__name__}", case, "document", f"{type(exc).__name__}: {exc}")]
    vs = check_doc(mk, case, doc, warn, info, frontend)
    if acc is not None:
        nt, classes = classify(case, info)
        acc.case(case, nt, classes + [f"frontend:{frontend}"],
                 sample={"text": text, "sort": case["sort"], "transition": case["transition"]})
    out, seen = [], set()
    for v in vs:
        if v["signature"] not in seen:
            seen.add(v["signature"])
            out.append(v)
    return out


# --------------------------------------------------------------------------- sub-checks


def _record(acc, vs):
    kn = known()
    for v in vs:
        if kn.matches(v):
            acc.known_hits[v["signature"]] += 1
        elif len(acc.violations) < 8 and all(v["signature"] != x["signature"] for x in acc.violations):
            acc.violations.append(v)


def enum_cases(tier):
    """Small arrangements, exhaustively: k definitions (labels from 4, with repetition) in every order, one referencing
    paragraph before / after with every sequence of <= 3 references over the labels + a missing one."""
    labs = ["a", "b", "1", "2"]
    maxdefs = 2 if tier == "quick" else 3
    maxrefs = 3
    for nd in range(1, maxdefs + 1):
        for dl in itertools.product(labs, repeat=nd):
            for nr in range(0, maxrefs + 1):
                for rl in itertools.product(labs + ["zz"], repeat=nr):
                    for pos in ("before", "after"):
                        for sort in (True, False):
                            para = {"t": "para", "refs": list(rl)}
                            ds = [{"t": "def", "label": L, "wrap": None, "refs": []} for L in dl]
                            items = [para] + ds if pos == "before" else ds + [para]
                            yield {"items": items, "sort": sort, "transition": True}


def sub_enum(acc, shard, nshards, tier, seed):
    for i, case in enumerate(enum_cases(tier)):
        if i % nshards != shard:
            continue
        _record(acc, check_case(acc, case))
    acc.exhaustive = True


label_st = st.sampled_from(LABELS)
reflabel_st = st.one_of(label_st, label_st, label_st, st.sampled_from(MISSING))
name_item_st = st.builds(lambda k, L: {"t": "name", "kind": k, "label": L}, st.sampled_from(["heading", "heading", "target", "attr"]),
                         st.sampled_from(["a", "b", "c", "note", "1"]))
item_st = st.one_of(
    st.builds(lambda r: {"t": "para", "refs": r}, st.lists(reflabel_st, max_size=4)),
    st.builds(lambda L, w, r: {"t": "def", "label": L, "wrap": w, "refs": r}, label_st,
              st.sampled_from([None, None, None, "quote", "list", "note"]), st.lists(reflabel_st, max_size=2)),
    st.builds(lambda L, w, r: {"t": "def", "label": L, "wrap": w, "refs": r}, st.sampled_from(["a", "b", "c", "1", "2"]),
              st.sampled_from([None, None, "quote", "list", "note"]), st.just([])),
)
case_st = st.builds(lambda items, names, pos, s, t, via: {"items": (items[:pos % (len(items) + 1)] + names + items[pos % (len(items) + 1):]),
                                                         "sort": s, "transition": t, **({"via": "front"} if via else {})},
                    st.lists(item_st, min_size=1, max_size=14), st.lists(name_item_st, max_size=2), st.integers(0, 14), st.booleans(),
                    st.booleans(), st.sampled_from([False, False, True]))


def sub_random(acc, shard, nshards, tier, seed):
    n = 250 if tier == "quick" else 6000
    hyp_run(acc, case_st, lambda c: check_case(acc, c), max_examples=n,
            seed=shard_seed(seed, shard, 11), is_known=known().matches)


def sub_sphinx(acc, shard, nshards, tier, seed):
    n = 60 if tier == "quick" else 1500
    with front.sphinx_project() as project:
        hyp_run(acc, case_st, lambda c: check_case(acc, c, project), max_examples=n,
                seed=shard_seed(seed, shard, 12), is_known=known().matches)


def plan(tier):
    return [Sub("enum", sub_enum, 16), Sub("random", sub_random, 12), Sub("sphinx", sub_sphinx, 4 if tier == "quick" else 16)]


def replay(sub, input):
    case = dict(input)
    if sub == "sphinx":
        case["frontend"] = "sphinx"
    return check_case(None, case)
