"""C17 - HTML blocks: verbatim pass-through, img / admonition = directives, GFM tag filter."""

from __future__ import annotations

import html
import itertools
import json
import re
from html.parser import HTMLParser

from hypothesis import strategies as st

from vlib import front
from vlib.core import Acc, Sub, hyp_run, shard_seed
from vlib.findings import Known

PROPERTY = "C17"
RULE = (
    "(pass) Hypothesis documents of HTML blocks (every CommonMark HTML-block start condition: block-level tags, "
    "custom elements, comments, processing instructions, declarations, CDATA, script / pre / style) and paragraphs "
    "with inline HTML, each fragment of a known class {plain, img-only, admonition div, mixed img + other}, under all "
    "four on / off combinations of html_image / html_admonition; oracle: the raw-HTML nodes of the doctree, in order, "
    "have exactly the content of the html_block / html_inline tokens that an independent RendererHTML parse of the "
    "same text produces, for every fragment that is not convertible under the drawn configuration. (img) <img> "
    "elements with drawn attribute sets (whitelisted src / alt / class / width / height / align / name and other "
    "keys; values with '#', '|', '>', ':', quotes, entities, backslashes, line breaks, leading / trailing spaces, "
    "non-ASCII, empty and value-less) as block and inline: the image nodes equal those of the image directive "
    "written with the same (unescaped) values as double-quoted options. (admonition) <div class=\"admonition ...\"> "
    "with optional title element, <p> paragraphs with inline Markdown and bare text: equal to the admonition "
    "directive with that title, classes, name and body. (gfm) texts with the nine disallowed tags in every "
    "spelling (case, closing, attributes, line breaks, adjacent, at end of input): the raw text equals the source "
    "with '<' replaced by '&lt;' at exactly the positions a hand-written scanner model of the GFM rule marks, and an "
    "independent html.parser run over the result sees no start / end tag of the nine names. Non-trivial: attribute "
    "value with an option-syntax character, or a mixed convertible / non-convertible fragment, or >= 2 filtered tags; "
    "distinct by case."
)
RULE += (' Class tokens are separated by any HTML white space (spaces, tab, line break).')
ASSUMPTIONS = [
    "GFM mode is driven through create_md_parser(gfm config) with the linkify rule disabled (linkify-it-py is not "
    "importable), as the property's observation note prescribes",
    "the 'equivalent directive' writes every option value as a double-quoted YAML scalar (the form verified by C07)",
]
FLOOR = {"quick": 300, "thorough": 6000}

_known = None


def known() -> Known:
    global _known
    if _known is None:
        _known = Known(PROPERTY)
    return _known


def mask(s):
    s = re.sub(r' line="\d+"', "", s)
    return re.sub(r' source="[^"]*"', "", s)


# --------------------------------------------------------------------------- (pass)

PLAIN_BLOCKS = [
    "<div>\nhtml *text*\n</div>", "<div class=\"other\">x</div>", "<!-- a comment -->", "<!--\nmulti\nline\n-->", "<hr/>",
    "<p class=\"c\">para</p>", "<table><tr><td>x</td></tr></table>", "<script>\nalert(1)\n\nmore\n</script>", "<?php echo 1; ?>",
    "<!DOCTYPE html>", "<![CDATA[\nx < y\n]]>", "<custom-tag attr=\"1\">\ninner\n</custom-tag>", "<pre>\n  keep   space\n</pre>",
    "<style>\na {b: c}\n</style>", "</div>", "<section id=\"s\">\n<h1>t</h1>\n</section>", "<details><summary>s</summary>\nbody\n</details>",
    "<div class=\"admonitionx\">not an admonition</div>", "<image src=\"x\">", "<DIV>upper</DIV>", "<div\n  class=\"a\"\n>\nx\n</div>",
    "<p>&amp; &lt; &#35; &nosuch;</p>", "<blockquote>\n*not md*\n</blockquote>",
]
IMG_BLOCKS = ['<img src="a.png">', '<img src="a.png" alt="alt text" width="100px">', '<img src="a.png"/>',
              '<img src="a.png">\n<img src="b.png">', '<img src="a.png"><img src="b.png" class="c">']
ADM_BLOCKS = ['<div class="admonition">\nplain\n</div>', '<div class="admonition note">\n<p class="title">T</p>\n<p>Body *md*</p>\n</div>',
              '<div class="admonition tip" name="n">\n<div class="admonition-title">Title</div>\ntext\n</div>']
MIXED_BLOCKS = ['<img src="a.png"> trailing text', '<img src="a.png">\n<b>bold</b>', 'text <img src="a.png">',
                '<div class="admonition">x</div><p>other</p>', '<img src="a.png"><!-- c -->', '<img src="a.png">\n<div>plain</div>',
                '<div class="admonition">x</div>\n<img src="a.png">\ntext']
INLINE_PLAIN = ["<b>", "</b>", "<span class=\"x\">", "</span>", "<br>", "<!-- c -->", "<kbd>", "<a href=\"u\">", "<x-y z=\"1\">", "<?pi?>",
                "<![CDATA[z]]>", "<B>", "<em title=\"a b\">"]
INLINE_IMG = ['<img src="i.png">', '<img src="i.png" alt="a">']


def html_tokens(text, cfg):
    """(type, content) of the html tokens of an independent RendererHTML parse, in order."""
    from markdown_it.renderer import RendererHTML

    from myst_parser.config.main import MdParserConfig
    from myst_parser.parsers.mdit import create_md_parser

    md = create_md_parser(MdParserConfig(**cfg), RendererHTML)
    out = []
    for tok in md.parse(text):
        if tok.type == "html_block":
            out.append(("html_block", tok.content))
        for ch in tok.children or []:
            if ch.type == "html_inline":
                out.append(("html_inline", ch.content))
    return out


def classify_fragment(content: str) -> str:
    """Class of an html token content by construction tables (exact membership), else 'plain'."""
    c = content.rstrip("\n")
    if c in IMG_BLOCKS or c in INLINE_IMG or re.fullmatch(r"(<img\b[^<>]*>\s*)+", c):
        return "img"
    if c in ADM_BLOCKS:
        return "adm"
    if c in MIXED_BLOCKS:
        return "mixed"
    return "plain"


def check_pass(acc, case) -> list[dict]:
    from docutils import nodes

    mk = (acc or Acc(PROPERTY, "replay")).violation
    exts = (["html_image"] if case["img"] else []) + (["html_admonition"] if case["adm"] else [])
    cfg = {"enable_extensions": exts}
    text = case["text"]
    try:
        doc, warn = front.docutils_parse(text, settings={"myst_enable_extensions": exts})
        toks = html_tokens(text, cfg)
    except Exception as exc:  # noqa: BLE001
        return [mk(f"C17:render-raises:{type(exc).__name__}", case, "document", f"{type(exc).__name__}: {exc}")]
    expected = []
    classes = set()
    for typ, content in toks:
        cl = classify_fragment(content)
        classes.add(cl)
        converted = (cl == "img" and case["img"]) or (cl == "adm" and case["adm"])
        if cl == "mixed" and case["img"] and case["adm"] and "admonition" in content and "<img" in content and "text" not in content and "<p>" not in content:
            converted = True  # every top-level element is convertible
        if not converted:
            expected.append(content)
    got = [r.astext() for r in doc.findall(nodes.raw)
           if r.get("format") == "html" and not any(isinstance(p, (nodes.system_message, nodes.Admonition)) for p in _ancestors(r))]
    vs = []
    if got != expected:
        i = next((j for j in range(min(len(got), len(expected))) if got[j] != expected[j]), min(len(got), len(expected)))
        vs.append(mk("C17:raw-html-differs-from-source", case, {"index": i, "expected": expected[i:i + 2]}, {"got": got[i:i + 2], "n": [len(expected), len(got)]}))
    if acc is not None:
        acc.case(("pass", case), "mixed" in classes or len(classes) >= 2, ["pass", f"img:{case['img']}", f"adm:{case['adm']}"] + sorted("class:" + c for c in classes),
                 sample={"text": text, "html_image": case["img"], "html_admonition": case["adm"]})
    return vs


def _ancestors(n):
    p = n.parent
    while p is not None:
        yield p
        p = p.parent


@st.composite
def pass_case(draw):
    parts = []
    for _ in range(draw(st.integers(1, 6))):
        k = draw(st.integers(0, 9))
        if k <= 3:
            parts.append(draw(st.sampled_from(PLAIN_BLOCKS)))
        elif k == 4:
            parts.append(draw(st.sampled_from(IMG_BLOCKS)))
        elif k == 5:
            parts.append(draw(st.sampled_from(ADM_BLOCKS)))
        elif k == 6:
            parts.append(draw(st.sampled_from(MIXED_BLOCKS)))
        elif k == 7:
            parts.append("A paragraph of *text*.")
        else:
            words = draw(st.lists(st.one_of(st.sampled_from(INLINE_PLAIN), st.sampled_from(INLINE_PLAIN), st.sampled_from(INLINE_IMG),
                                            st.sampled_from(["word", "two words", "*em*", "`code`"])), min_size=2, max_size=6))
            if words[0].startswith("<"):
                words.insert(0, "lead")
            parts.append(" ".join(words))
    wrap = draw(st.sampled_from([None, None, None, "quote", "list"]))
    text = "\n\n".join(parts)
    if wrap == "quote":
        text = "\n".join(("> " + ln) if ln else ">" for ln in text.split("\n"))
    elif wrap == "list":
        text = "\n".join(("- " + ln) if i == 0 else (("  " + ln) if ln else "") for i, ln in enumerate(text.split("\n")))
    return {"text": text + "\n", "img": draw(st.booleans()), "adm": draw(st.booleans())}


def sub_pass(acc, shard, nshards, tier, seed):
    n = 150 if tier == "quick" else 5000
    hyp_run(acc, pass_case(), lambda c: check_pass(acc, c), max_examples=n,
            seed=shard_seed(seed, shard, 17), is_known=known().matches)


def _record(acc, vs):
    kn = known()
    for v in vs:
        if kn.matches(v):
            acc.known_hits[v["signature"]] += 1
        elif len(acc.violations) < 8 and all(v["signature"] != x["signature"] for x in acc.violations):
            acc.violations.append(v)


def sub_pass_each(acc, shard, nshards, tier, seed):
    """Every fragment of the four classes, alone, x the four extension combinations (exhaustive)."""
    i = 0
    for frag in PLAIN_BLOCKS + IMG_BLOCKS + ADM_BLOCKS + MIXED_BLOCKS + ["lead " + x + " tail" for x in INLINE_PLAIN + INLINE_IMG]:
        for img, adm in itertools.product((False, True), repeat=2):
            i += 1
            if i % nshards != shard:
                continue
            _record(acc, check_pass(acc, {"text": "Before.\n\n" + frag + "\n\nAfter.\n", "img": img, "adm": adm}))
    acc.exhaustive = True


# --------------------------------------------------------------------------- (img)

VALUE_POOL = ["alt text", "#hash first", "a # b", "| pipe", "> gt", "a: b", ": lead colon", "- dash", "'single'", "it's", 'say "hi"',
              "back\\slash", "trail\\", "two\nlines", " lead space", "trail space ", "", "é中 \U0001f600", "a & b", "<tag>", "{{ x }}", "*md*",
              "---", "?", "!tag", "&anchor", "%", "@", "`", "[x]", "{a: b}", "100px", "50%", "left", "top", "c1 c2", "n1", "12", "0x1F", "null",
              "true", "~"]
KEYS = ["alt", "class", "width", "height", "align", "name", "title", "id", "style", "data-x"]
WHITELIST = {"class", "alt", "height", "width", "align", "name"}


def attr_html(v):
    """Serialise an attribute value in double quotes (entities for & and \")."""
    return v.replace("&", "&amp;").replace('"', "&quot;")


# documents parsed earlier in the same process, which end inside an HTML construct: the conversion of a later <img> /
# <div class="admonition"> does not depend on them
EARLIER = ["para <style> unclosed inline\n", "<script>\nunclosed block\n", "text <di\n\n<div class=\"admonition\">\nunclosed\n",
           "x &am\n\n<!-- open\n", "<textarea>\n"]


def _parse_earlier(case, settings):
    if case.get("earlier") is not None:
        try:
            front.docutils_parse(case["earlier"], settings=settings)
        except Exception:  # noqa: BLE001  (crashes are C01's business)
            pass


@st.composite
def img_case(draw):
    src = draw(st.sampled_from(["a.png", "dir/b.svg", "https://e.org/i.gif", "a b.png", "é.png", "x?y=1&z=2"]))
    keys = draw(st.lists(st.sampled_from(KEYS), max_size=5, unique=True))
    attrs = []
    for k in keys:
        if draw(st.integers(0, 9)) == 0:
            attrs.append([k, None])  # value-less
        else:
            attrs.append([k, draw(st.sampled_from(VALUE_POOL))])
    return {"src": src, "attrs": attrs, "inline": draw(st.booleans()), "selfclose": draw(st.booleans()),
            "src_first": draw(st.booleans()), "earlier": draw(st.sampled_from([None, None] + EARLIER))}


def build_img(case):
    parts = []
    src_attr = f'src="{attr_html(case["src"])}"'
    for k, v in case["attrs"]:
        parts.append(k if v is None else f'{k}="{attr_html(v)}"')
    parts = ([src_attr] + parts) if case["src_first"] else (parts + [src_attr])
    tag = "<img " + " ".join(parts) + ("/>" if case["selfclose"] else ">")
    opts = []
    for k, v in sorted(case["attrs"]):
        if k in WHITELIST:
            opts.append(f":{k}: " + json.dumps("" if v is None else v, ensure_ascii=False))
    directive = "```{image} " + case["src"] + "\n" + "\n".join(opts) + ("\n" if opts else "") + "```"
    return tag, directive


def check_img(acc, case) -> list[dict]:
    from docutils import nodes

    mk = (acc or Acc(PROPERTY, "replay")).violation
    tag, directive = build_img(case)
    if "\n" in tag and case["inline"]:
        case = {**case, "inline": False}
    t_html = ("lead " + tag + " tail\n") if case["inline"] else (tag + "\n")
    t_dir = directive + "\n"
    st_ = {"myst_enable_extensions": ["html_image", "html_admonition"]}
    _parse_earlier(case, st_)
    try:
        d1, w1 = front.docutils_parse(t_html, settings=st_)
        d2, w2 = front.docutils_parse(t_dir, settings=st_)
    except Exception as exc:  # noqa: BLE001
        return [mk(f"C17:render-raises:{type(exc).__name__}", case, "documents", f"{type(exc).__name__}: {exc}\n{t_html}")]
    a = [mask(n.pformat()) for n in d1.findall(nodes.image)]
    b = [mask(n.pformat()) for n in d2.findall(nodes.image)]
    vs = []
    if a != b:
        vs.append(mk("C17:img-differs-from-image-directive", case, {"directive": t_dir, "image_nodes": b}, {"html": t_html, "image_nodes": a}))
    # the same option problems are reported (count of myst warnings), none in one spelling only
    wa = sorted(re.sub(r"^.*?: \(", "(", x) for x in front.warning_lines(w1) if "[myst." in x)
    wb = sorted(re.sub(r"^.*?: \(", "(", x) for x in front.warning_lines(w2) if "[myst." in x)
    if wa != wb:
        vs.append(mk("C17:img-warnings-differ-from-image-directive", case, wb[:4], wa[:4]))
    raws = [r.astext() for r in d1.findall(nodes.raw) if r.get("format") == "html"]
    if raws:
        vs.append(mk("C17:img-not-converted", case, "image node", raws[:2]))
    if acc is not None:
        special = any(v is None or re.search(r"[#|>:'\"\\\n{}\[\]&*!%@`?~-]|^ | $|^$", v) for k, v in case["attrs"] if k in WHITELIST)
        acc.case(("img", case), bool(special), ["img", "inline" if case["inline"] else "block"] + sorted({"key:" + k for k, _ in case["attrs"]}),
                 sample={"html": t_html, "directive": t_dir})
    return vs


def sub_img(acc, shard, nshards, tier, seed):
    n = 200 if tier == "quick" else 6000
    hyp_run(acc, img_case(), lambda c: check_img(acc, c), max_examples=n,
            seed=shard_seed(seed, shard, 18), is_known=known().matches)


def sub_img_each(acc, shard, nshards, tier, seed):
    """Every whitelisted key x every value of the pool (and value-less), block and inline: exhaustive."""
    i = 0
    for k in sorted(WHITELIST):
        for v in VALUE_POOL + [None]:
            for inline in (False, True):
                i += 1
                if i % nshards != shard:
                    continue
                for earlier in (None, EARLIER[i % len(EARLIER)]):
                    _record(acc, check_img(acc, {"src": "a.png", "attrs": [[k, v]], "inline": inline, "selfclose": False,
                                                 "src_first": True, "earlier": earlier}))
    acc.exhaustive = True


# --------------------------------------------------------------------------- (admonition)

MD_TEXT = ["plain words", "with *emphasis* and `code`", "a [link](https://e.org)", "two\nlines", "é中", "a <b>bold</b> tag", "# not a heading",
           "- not a list", "1. one", "> quote",
           # white space that stands alone between two tags / entities is content, too
           "<kbd>Ctrl</kbd> <kbd>C</kbd>", "&copy; &reg; &#169;", "<b>a</b> <i>b</i>\n<u>c</u>", "<!-- c --> <b>x</b>"]
TITLES = [None, "Title", "A *styled* title", "T2 `code`", "É title"]


@st.composite
def adm_case(draw):
    # class tokens are separated by any HTML white space (a wrapped start tag puts a line break between them)
    classes = draw(st.sampled_from(["admonition", "admonition note", "admonition warning extra", "extra admonition",
                                    "admonition\ttip", "admonition  note", "admonition\n   tip", " admonition note ",
                                    "extra\tadmonition"]))
    name = draw(st.sampled_from([None, None, "nm1", "My Name", "#x y"]))
    title = draw(st.sampled_from(TITLES))
    title_tag = draw(st.sampled_from(["p", "div"]))
    title_class = draw(st.sampled_from(["title", "admonition-title", "x title", "title\tbig", "big\n title"]))
    body = []
    for _ in range(draw(st.integers(1, 3))):
        body.append([draw(st.sampled_from(["p", "text"])), draw(st.sampled_from(MD_TEXT))])
    return {"classes": classes, "name": name, "title": title, "title_tag": title_tag, "title_class": title_class, "body": body,
            "earlier": draw(st.sampled_from([None, None] + EARLIER)), "second": draw(st.booleans())}


def build_adm(case):
    lines = ['<div class="' + case["classes"] + '"' + (f' name="{attr_html(case["name"])}"' if case["name"] is not None else "") + ">"]
    if case["title"] is not None:
        lines.append(f'<{case["title_tag"]} class="{case["title_class"]}">{case["title"]}</{case["title_tag"]}>')
    md_body = []
    for kind, text in case["body"]:
        if kind == "p":
            lines.append(f"<p>{text}</p>")
        else:
            lines.extend(text.split("\n"))
        md_body.append(text)
    lines.append("</div>")
    if case.get("second"):
        # a second admonition in the same HTML block (no blank line between them), without a title of its own
        lines += ['<div class="admonition">', "<p>second body</p>", "</div>"]
    opts = [":class: " + json.dumps(case["classes"])]
    if case["name"] is not None:
        opts.append(":name: " + json.dumps(case["name"]))
    title = case["title"] if case["title"] is not None else "Note"
    directive = "~~~~{admonition} " + title + "\n" + "\n".join(sorted(opts)) + "\n\n" + "\n\n".join(md_body) + "\n~~~~"
    if case.get("second"):
        directive += '\n\n~~~~{admonition} Note\n:class: "admonition"\n\nsecond body\n~~~~'
    return "\n".join(lines), directive


def check_adm(acc, case) -> list[dict]:
    from docutils import nodes

    mk = (acc or Acc(PROPERTY, "replay")).violation
    h, d = build_adm(case)
    # bare text lines that follow each other without a <p> are one paragraph in HTML source but were generated as separate
    # paragraphs for the directive: keep at most one bare-text item and put it last, so both spellings agree by construction
    st_ = {"myst_enable_extensions": ["html_image", "html_admonition"]}
    _parse_earlier(case, st_)
    try:
        d1, w1 = front.docutils_parse(h + "\n", settings=st_)
        d2, w2 = front.docutils_parse(d + "\n", settings=st_)
    except Exception as exc:  # noqa: BLE001
        return [mk(f"C17:render-raises:{type(exc).__name__}", case, "documents", f"{type(exc).__name__}: {exc}\n{h}")]
    a = mask(d1.pformat())
    b = mask(d2.pformat())
    vs = []
    if a != b:
        i = next((j for j in range(min(len(a), len(b))) if a[j] != b[j]), min(len(a), len(b)))
        vs.append(mk("C17:div-admonition-differs-from-directive", case, {"directive": d, "tree": b[max(0, i - 150):i + 250]},
                     {"html": h, "tree": a[max(0, i - 150):i + 250]}))
    if acc is not None:
        acc.case(("adm", case), bool(case["body"]) and (case["title"] is not None or case["name"] is not None),
                 ["adm", f"title:{case['title'] is not None}", f"body:{len(case['body'])}"], sample={"html": h, "directive": d})
    return vs


def normalise_adm(case):
    """Keep the two spellings unambiguous: at most one bare-text item, placed last (consecutive bare lines are one paragraph)."""
    body = [b for b in case["body"] if b[0] == "p"]
    bare = [b for b in case["body"] if b[0] == "text"]
    return {**case, "body": body + bare[:1]}


def sub_adm(acc, shard, nshards, tier, seed):
    n = 150 if tier == "quick" else 4000
    hyp_run(acc, adm_case().map(normalise_adm), lambda c: check_adm(acc, c), max_examples=n,
            seed=shard_seed(seed, shard, 19), is_known=known().matches)


# --------------------------------------------------------------------------- (gfm)

NINE = ["iframe", "noembed", "noframes", "plaintext", "script", "style", "title", "textarea", "xmp"]
FOLLOW = set("\t\n\f\r />")


def model_filter(text: str) -> str:
    """Hand-written scanner for the GFM tag filter: '<' [ '/' ] NAME followed by one of TAB LF FF CR SPACE '/' '>'."""
    out = []
    i = 0
    low = text.lower()
    while i < len(text):
        if text[i] == "<":
            j = i + 1
            if j < len(text) and text[j] == "/":
                j += 1
            hit = False
            for name in NINE:
                if low.startswith(name, j):
                    k = j + len(name)
                    if k < len(text) and text[k] in FOLLOW:
                        hit = True
                        break
            out.append("&lt;" if hit else "<")
        else:
            out.append(text[i])
        i += 1
    return "".join(out)


class _Tags(HTMLParser):
    def __init__(self):
        super().__init__(convert_charrefs=False)
        self.seen = []

    def handle_starttag(self, tag, attrs):
        self.seen.append(tag)

    def handle_endtag(self, tag):
        self.seen.append("/" + tag)


GFM_PIECES = ["<script>", "</script>", "<SCRIPT>", "<Script src=\"x\">", "<script\n>", "<script/>", "<script", "<scripts>", "<style>a{}</style>",
              "<title>t</title>", "<textarea>", "<xmp>", "<iframe src=\"u\">", "</iframe>", "<noembed>", "<noframes>", "<plaintext>", "<plaintext/>",
              "<xmpx>", "< script>", "<\tscript>", "<b>", "</b>", "<div>", "</div>", "text", " ", "\n", "<!-- <script> -->", "&lt;script>",
              "<a href=\"<script>\">", "<<script>", "<script><script>", "<STYLE\ttype=\"x\">", "<title\f>", "<textarea\r>",
              # (a '/' right after the name ends the name, whatever follows it)
              "<script/src=\"x.js\">", "<iframe/onload=x>", "<xmp//>", "<style/ >"]


@st.composite
def gfm_case(draw):
    pieces = draw(st.lists(st.sampled_from(GFM_PIECES), min_size=1, max_size=8))
    body = "".join(pieces)
    block = draw(st.booleans())
    if block:
        text = "<div>\n" + body.replace("\n\n", "\n") + "\n</div>\n"
    else:
        text = "para " + body.replace("\n", " ") + " end\n"
    return {"text": text, "exts": draw(st.sampled_from(GFM_EXTS))}


# the tag filter applies whatever HTML extension is enabled next to it (they only convert <img> / div.admonition)
GFM_EXTS = [[], [], ["html_image"], ["html_admonition"], ["html_image", "html_admonition"]]


def check_gfm(acc, case) -> list[dict]:
    from docutils import nodes
    from markdown_it.renderer import RendererHTML

    from myst_parser.config.main import MdParserConfig

    mk = (acc or Acc(PROPERTY, "replay")).violation
    text = case["text"]
    try:
        exts = list(case.get("exts") or [])
        doc, warn = front.gfm_parse(text, extra_cfg={"enable_extensions": exts} if exts else None)
        md = front.gfm_markdown_it(MdParserConfig(gfm_only=True), RendererHTML)
        toks = []
        for tok in md.parse(text):
            if tok.type == "html_block":
                toks.append(tok.content)
            for ch in tok.children or []:
                if ch.type == "html_inline":
                    toks.append(ch.content)
    except Exception as exc:  # noqa: BLE001
        return [mk(f"C17:render-raises:{type(exc).__name__}", case, "document", f"{type(exc).__name__}: {exc}")]
    got = [r.astext() for r in doc.findall(nodes.raw) if r.get("format") == "html"]
    exp = [model_filter(t) for t in toks]
    vs = []
    convertible = exts and any("<img" in t.lower() or "admonition" in t for t in toks)
    if got != exp and not convertible:
        vs.append(mk("C17:gfm-filter-differs-from-model", case, exp[:4], got[:4]))
    for g in got:
        p = _Tags()
        try:
            p.feed(g)
            p.close()
        except Exception:  # noqa: BLE001
            continue
        bad = [t for t in p.seen if t.lstrip("/") in NINE]
        if bad:
            vs.append(mk("C17:gfm-disallowed-tag-still-opens", case, "no start / end tag of the nine names", {"raw": g, "tags": bad}))
            break
    if acc is not None:
        n_f = sum(e.count("&lt;") - t.count("&lt;") for e, t in zip(exp, toks))
        acc.case(("gfm", case), n_f >= 2, ["gfm", f"filtered:{min(n_f, 4)}"], sample={"text": text, "raw": got[:3]})
    return vs


def sub_gfm(acc, shard, nshards, tier, seed):
    n = 200 if tier == "quick" else 6000
    hyp_run(acc, gfm_case(), lambda c: check_gfm(acc, c), max_examples=n,
            seed=shard_seed(seed, shard, 20), is_known=known().matches)


def sub_gfm_each(acc, shard, nshards, tier, seed):
    """Every name x {open, close} x every following character of interest x case: exhaustive."""
    i = 0
    follows = ["\t", "\n", "\f", "\r", " ", "/", ">", "", "x", "-", "1", ":", "\\", "/x", "//", "/ "]
    for name in NINE:
        for close in ("", "/"):
            for f in follows:
                for nm in (name, name.upper(), name.capitalize()):
                    i += 1
                    if i % nshards != shard:
                        continue
                    tag = "<" + close + nm + f + (">" if f not in (">", "") else "")
                    exts = GFM_EXTS[1:][i % 4]
                    _record(acc, check_gfm(acc, {"text": "<div>\nbefore " + tag.replace("\n", " \n") + " after\n</div>\n", "exts": exts}))
                    _record(acc, check_gfm(acc, {"text": "para <b>x</b> " + tag.replace("\n", " ").replace("\r", " ").replace("\f", " ") + " end\n",
                                                 "exts": exts}))
    acc.exhaustive = True


def plan(tier):
    return [Sub("pass_each", sub_pass_each, 2), Sub("pass", sub_pass, 4), Sub("img_each", sub_img_each, 2), Sub("img", sub_img, 3),
            Sub("adm", sub_adm, 2), Sub("gfm_each", sub_gfm_each, 1), Sub("gfm", sub_gfm, 2)]


def replay(sub, input):
    fn = {"pass": check_pass, "pass_each": check_pass, "img": check_img, "img_each": check_img, "adm": check_adm,
          "gfm": check_gfm, "gfm_each": check_gfm}[sub]
    return fn(None, input)
