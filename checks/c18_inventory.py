"""C18 - inventory loading agrees with Sphinx's loader, is independent of how the byte
stream is chunked, survives malformed lines, and round-trips through the Sphinx format.
"""

from __future__ import annotations

import io
import traceback
import zlib

from hypothesis import strategies as st

from vlib.core import Acc, CaseTimeout, Sub, hyp_run, shard_seed, watchdog
from vlib.findings import Known

PROPERTY = "C18"
RULE = (
    "Hypothesis object tables (names with embedded spaces / non-ASCII, '$' location shorthand, '-' and "
    "explicit display names, negative priorities, duplicate entries, several domains, py:module duplicates, "
    "std:label case variants) serialised as v2 exactly as InventoryFile.dump does (several zlib levels / "
    "flush points) and as v1, plus line-level mutations (drop, duplicate, truncate, garbage line, wrong type "
    "field, missing final newline, CRLF header). Oracles: (i) differential vs sphinx.util.inventory."
    "InventoryFile.loads on the same bytes; (ii) metamorphic: load(chunked stream) == load(BytesIO) for every "
    "single split point and every pair of split points of files < 200 bytes (exhaustive per file) and for "
    "random chunk-size sequences 1-64 otherwise; (iii) from_sphinx(to_sphinx(inv)) == inv. Non-trivial: the "
    "table has a space-bearing name or '$' / '-' shorthand and at least one chunking splits inside the header "
    "or inside the zlib stream; distinct by (bytes, chunking)."
)
RULE += (' (large) inventories of 400-6000 poorly compressible entries (several 16 KiB read buffers) under reads of 16 KiB, 16 KiB +- 1, 4 KiB, 1000, 1 MiB and a ragged schedule, same oracles.')
ASSUMPTIONS = [
    "Sphinx 8.2.3's InventoryFile.loads is the reference loader",
    "names do not contain the exotic line separators that str.splitlines honours but a '\\n' split does not "
    "(\\r, \\x0b, \\x0c, \\x1c-\\x1e, \\x85, U+2028/9): the two loaders legitimately differ on what a line is",
    "streams honour the io contract: read(n) returns b'' only at end of stream",
]
FLOOR = {"quick": 100, "thorough": 2000}

_known = None


def known() -> Known:
    global _known
    if _known is None:
        _known = Known(PROPERTY)
    return _known


class Chunked:
    """A stream whose read(n) returns at most the next chunk."""

    def __init__(self, data: bytes, sizes: list[int]):
        self.data = data
        self.sizes = sizes or [len(data) or 1]
        self.pos = 0
        self.i = 0

    def read(self, n: int = -1) -> bytes:
        if self.pos >= len(self.data):
            return b""
        size = self.sizes[self.i] if self.i < len(self.sizes) else self.sizes[-1]
        self.i += 1
        if n is not None and n >= 0:
            size = min(size, n)
        size = max(size, 1)
        out = self.data[self.pos:self.pos + size]
        self.pos += len(out)
        return out


def splits_to_sizes(points: list[int], total: int) -> list[int]:
    pts = [0] + sorted(p for p in set(points) if 0 < p < total) + [total]
    sizes = [b - a for a, b in zip(pts, pts[1:])]
    return sizes or [max(total, 1)]


# ------------------------------------------------------------------ serialisation

HEADER_V2 = "# Sphinx inventory version 2\n# Project: {p}\n# Version: {v}\n# The remainder of this file is compressed using zlib.\n"
HEADER_V1 = "# Sphinx inventory version 1\n# Project: {p}\n# Version: {v}\n"


def serialise(case: dict) -> bytes:
    """case -> bytes.  case = {fmt, project, version, lines, level, flush_every, nl, crlf}"""
    p, v = case["project"], case["version"]
    if case["fmt"] == 1:
        head = HEADER_V1.format(p=p, v=v)
        if case.get("crlf"):
            head = head.replace("\n", "\r\n")
        body = "".join(line + "\n" for line in case["lines"])
        if not case.get("nl", True) and body.endswith("\n"):
            body = body[:-1]
        return (head + body).encode("utf-8", "surrogatepass")
    head = HEADER_V2.format(p=p, v=v)
    if case.get("crlf"):
        head = head.replace("\n", "\r\n")
    body = "".join(line + "\n" for line in case["lines"] + bulk_lines(case.get("bulk")))
    if not case.get("nl", True) and body.endswith("\n"):
        body = body[:-1]
    comp = zlib.compressobj(case.get("level", 9))
    raw = body.encode("utf-8", "surrogatepass")
    out = b""
    fe = case.get("flush_every") or 0
    if fe:
        for i in range(0, len(raw), fe):
            out += comp.compress(raw[i:i + fe]) + comp.flush(zlib.Z_SYNC_FLUSH)
    else:
        out += comp.compress(raw)
    out += comp.flush()
    return head.encode("utf-8") + out


def bulk_lines(bulk) -> list[str]:
    """{"n": N, "salt": s} -> N well-formed entries with poorly compressible names (a real project's inventory has
    thousands of entries and is several read buffers long, compressed and inflated)."""
    if not bulk:
        return []
    import hashlib

    out = []
    for i in range(bulk["n"]):
        h = hashlib.sha256(f"{bulk['salt']}:{i}".encode()).hexdigest()
        typ = ("py:function", "py:class", "std:label", "py:module", "std:term")[int(h[0], 16) % 5]
        disp = "-" if int(h[1], 16) % 2 else f"Title {h[2:9]} {h[9:12]}"
        loc = f"api/{h[12:16]}.html#$" if int(h[2], 16) % 2 else f"g/{h[12:20]}.html#{h[20:26]}"
        out.append(f"pkg{h[26:29]}.{h[29:44]} {typ} {int(h[3], 16) % 3 - 1} {loc} {disp}")
    return out


def entry_line(e: dict) -> str:
    return f"{e['name']} {e['type']} {e['prio']} {e['loc']} {e['disp']}"


# ------------------------------------------------------------------ oracle


def sphinx_reference(data: bytes):
    """Sphinx's view: ("ok", {type: {name: (proj, ver, uri, disp)}}) or ("error", type-name)."""
    from sphinx.util.inventory import InventoryFile

    try:
        inv = InventoryFile.loads(data, uri="")
    except Exception as exc:  # noqa: BLE001
        return "error", type(exc).__name__
    out = {}
    for typ, names in inv.data.items():
        for name, item in names.items():
            out.setdefault(typ, {})[name] = (item.project_name, item.project_version, item.uri,
                                             item.display_name)
    return "ok", out


def myst_load(stream, base_url=None):
    from myst_parser import inventory

    try:
        with watchdog(30):
            return "ok", inventory.load(stream, base_url=base_url)
    except CaseTimeout:
        return "timeout", None
    except RecursionError as exc:
        return "error", exc
    except Exception as exc:  # noqa: BLE001
        return "error", exc


def _norm_sphinx(d):
    return {t: {n: tuple(v) for n, v in names.items()} for t, names in d.items()}


def truth_entries(case: dict):
    """Set of (type, name, loc, disp) an unmodified table entry may legitimately produce."""
    ok = set()
    for e in case.get("table", []):
        loc = e["loc"][:-1] + e["name"] if e["loc"].endswith("$") else e["loc"]
        ok.add((e["type"], e["name"], loc, e["disp"] if e["disp"] else "-"))
    return ok


def check_case(acc, case: dict) -> list[dict]:
    from myst_parser import inventory

    mk = (acc or Acc(PROPERTY, "replay")).violation
    data = serialise(case)
    vs: list[dict] = []
    cls = [f"v{case['fmt']}"]
    kind, ref = sphinx_reference(data)
    st_, got = myst_load(io.BytesIO(data))
    if st_ == "timeout":
        return [mk("C18:nontermination", case, "terminates", "no result after 30s")]
    # (i) differential
    if kind == "ok":
        cls.append("sphinx-accepts")
        if st_ == "error":
            vs.append(mk(f"C18:rejects-what-sphinx-loads:{type(got).__name__}", case, "loads",
                         f"{type(got).__name__}: {got}"))
        else:
            mine = _norm_sphinx(inventory.to_sphinx(got))
            if mine != ref:
                diff = _diff(ref, mine)
                vs.append(mk("C18:differs-from-sphinx:" + diff[0], case, diff[1], diff[2]))
    else:
        cls.append("sphinx-rejects:" + ref)
        if st_ == "ok":
            # must be a subset of the table's entries, unmodified
            allowed = truth_entries(case)
            mine = _norm_sphinx(inventory.to_sphinx(got))
            for typ, names in mine.items():
                for name, (_, _, uri, disp) in names.items():
                    if case["fmt"] == 2 and (typ, name, uri, disp) not in allowed:
                        vs.append(mk("C18:corrupt-entry-on-malformed-input", case, "subset of table entries",
                                     [typ, name, uri, disp]))
                        break
        elif not isinstance(got, (ValueError, zlib.error, UnicodeError, EOFError, OSError)):
            vs.append(mk(f"C18:unexpected-exception:{type(got).__name__}", case, "ValueError-like error",
                         "".join(traceback.format_exception_only(type(got), got))[:300]))
    # header fields
    if st_ == "ok" and kind == "ok" and case["fmt"] in (1, 2):
        if (got["name"], got["version"]) != (case["project"].rstrip(), case["version"].rstrip()) \
                and not case.get("mutated_header"):
            vs.append(mk("C18:project-or-version-differs", case, [case["project"], case["version"]],
                         [got["name"], got["version"]]))
    # (iii) round trip through the Sphinx format
    if st_ == "ok" and got["objects"]:
        back = inventory.from_sphinx(inventory.to_sphinx(got))
        if back != got:
            vs.append(mk("C18:sphinx-format-roundtrip-lossy", case, repr(got)[:300], repr(back)[:300]))
    # (ii) chunking
    total = len(data)
    head_len = data.find(b"zlib.\n") + 6 if case["fmt"] == 2 else 0
    chunkings = []
    if total < 200 and case.get("exhaustive_chunks", True):
        for a in range(1, total):
            chunkings.append([a])
        step = 1 if total < 90 else 3
        for a in range(1, total, step):
            for b in range(a + 1, total, step):
                chunkings.append([a, b])
        cls.append("chunking:exhaustive-1-and-2-splits")
    for sizes in case.get("chunk_sizes", []):
        chunkings.append(("sizes", sizes))
    split_inside = False
    base_repr = (st_, got if st_ == "ok" else type(got).__name__)
    nchunk = 0
    for ch in chunkings:
        if isinstance(ch, tuple):
            sizes = ch[1]
            split_inside = True
        else:
            sizes = splits_to_sizes(ch, total)
            if any(p < head_len or p > head_len for p in ch):
                split_inside = True
        s2, g2 = myst_load(Chunked(data, sizes))
        nchunk += 1
        r2 = (s2, g2 if s2 == "ok" else type(g2).__name__)
        if r2 != base_repr:
            vs.append(mk("C18:result-depends-on-chunking" + (":" + r2[1] if s2 == "error" else ""),
                         {**case, "chunk_sizes": [sizes], "exhaustive_chunks": False},
                         repr(base_repr)[:300], repr(r2)[:300]))
            break
    table = case.get("table", [])
    interesting = any(" " in e["name"] or e["loc"].endswith("$") or e["disp"] == "-" for e in table) or bool(case.get("bulk"))
    if case.get("bulk"):
        cls.append("bulk:" + ("several-read-buffers" if total > 16 * 1024 else "one-read-buffer"))
    if acc is not None:
        acc.extra.setdefault("chunkings_evaluated", 0)
        acc.extra["chunkings_evaluated"] += nchunk
        if case.get("mutation"):
            cls.append("mutation:" + case["mutation"])
        acc.case(case, interesting and split_inside and nchunk > 0, cls,
                 sample={k: case[k] for k in ("fmt", "project", "version", "lines", "nl", "bulk") if k in case}
                 | {"bytes": total, "chunkings": nchunk})
    out, seen = [], set()
    for v in vs:
        if v["signature"] not in seen:
            seen.add(v["signature"])
            out.append(v)
    return out


def _diff(ref, mine):
    for t in sorted(set(ref) | set(mine)):
        if t not in mine:
            return "missing-type", {t: ref[t]}, None
        if t not in ref:
            return "extra-type", None, {t: mine[t]}
        for n in sorted(set(ref[t]) | set(mine[t])):
            if n not in mine[t]:
                return "missing-entry", [t, n, ref[t][n]], None
            if n not in ref[t]:
                return "extra-entry", None, [t, n, mine[t][n]]
            if ref[t][n] != mine[t][n]:
                fields = ["project", "version", "location", "display"]
                which = [f for f, a, b in zip(fields, ref[t][n], mine[t][n]) if a != b]
                return "field-" + "+".join(which), [t, n, ref[t][n]], [t, n, mine[t][n]]
    return "order", None, None


# ------------------------------------------------------------------ generators

SAFE = "abcdefgxyzABC0123456789_.-/#$:*+()[]éü中\U0001f600"
word = st.text(alphabet=st.sampled_from(SAFE), min_size=1, max_size=6)
name_st = st.lists(word, min_size=1, max_size=3).flatmap(
    lambda ws: st.lists(st.sampled_from([" ", " ", "  ", "\t"]), min_size=len(ws) - 1, max_size=len(ws) - 1).map(
        lambda seps: "".join(w + s for w, s in zip(ws, seps + [""]))))
domain_st = st.sampled_from(["py", "std", "c", "js", "x"])
otype_st = st.sampled_from(["module", "function", "class", "label", "term", "doc", "a:b", "T"])
loc_st = st.one_of(
    st.builds(lambda a, b: a + b, st.sampled_from(["i.html#", "a/b.html#module-", "", "x#"]),
              st.sampled_from(["$", "$", "anchor", "", "a$b"])),
    word)
disp_st = st.one_of(st.just("-"), st.just("-"), name_st, st.sampled_from(["- x", "a  b", "1 2 3"]))


@st.composite
def table_st(draw):
    n = draw(st.integers(0, 7))
    entries = []
    for _ in range(n):
        if entries and draw(st.integers(0, 3)) == 0:
            prev = draw(st.sampled_from(entries))
            e = dict(prev)
            k = draw(st.integers(0, 2))
            if k == 0:
                e["loc"] = draw(loc_st)
            elif k == 1:
                e["disp"] = draw(disp_st)
            else:
                e["name"] = e["name"].swapcase()
        else:
            dom = draw(domain_st)
            e = {"name": draw(name_st), "type": f"{dom}:{draw(otype_st)}",
                 "prio": draw(st.sampled_from([1, 1, 0, -1, 2, 10])), "loc": draw(loc_st), "disp": draw(disp_st)}
            if draw(st.integers(0, 5)) == 0:
                e["type"] = "py:module"
            if draw(st.integers(0, 7)) == 0:
                e["type"] = draw(st.sampled_from(["std:label", "std:term"]))
        entries.append(e)
    return entries


header_text = st.one_of(st.sampled_from(["Proj", "My Project", "", "é中", "a" * 40, "long " * 2400]),
                        st.text(alphabet=st.sampled_from(SAFE + " "), max_size=12))


@st.composite
def case_st(draw, big=False):
    fmt = draw(st.sampled_from([2, 2, 2, 1]))
    table = draw(table_st())
    if big:
        table = [dict(e) for e in table * draw(st.integers(2, 12))]
    if fmt == 1:
        for e in table:
            e["name"] = e["name"].replace(" ", "_").replace("\t", "_")
            e["type"] = e["type"].split(":", 1)[1].replace("module", "mod")
        lines = [f"{e['name']} {e['type']} {e['loc'] or 'x.html'}" for e in table]
    else:
        lines = [entry_line(e) for e in table]
    case = {
        "fmt": fmt,
        "project": draw(header_text),
        "version": draw(header_text),
        "table": table if fmt == 2 else [],
        "lines": lines,
        "level": draw(st.sampled_from([9, 9, 6, 1, 0])),
        "flush_every": draw(st.sampled_from([0, 0, 0, 7, 30])),
        "nl": draw(st.sampled_from([True, True, True, False])),
        "crlf": draw(st.sampled_from([False, False, False, True])),
    }
    # line-level mutation
    mut = draw(st.sampled_from([None, None, "drop", "dup", "truncate", "garbage", "badtype", "blank", "noprio", "badtype2"]))
    if mut and lines:
        i = draw(st.integers(0, len(lines) - 1))
        if mut == "drop":
            del lines[i]
        elif mut == "dup":
            lines.insert(i, lines[i])
        elif mut == "truncate":
            lines[i] = lines[i][: draw(st.integers(0, max(0, len(lines[i]) - 1)))]
        elif mut == "garbage":
            lines.insert(i, draw(st.sampled_from(["garbage", "# comment", "a b", "a b c", "\t", "a b:c x d e"])))
        elif mut == "badtype":
            parts = lines[i].split(" ")
            lines[i] = lines[i].replace(":", "", 1) if ":" in lines[i] else lines[i]
            del parts
        elif mut == "badtype2":
            # two consecutive lines with the same colon-less type (e.g. 'function' written for 'py:function')
            lines[i:i + 1] = [f"helperA{i} function 1 a.html#$ -", f"helperB{i} function 1 b.html#$ -"]
        elif mut == "blank":
            lines.insert(i, "")
        elif mut == "noprio":
            lines[i] = lines[i].replace(" 1 ", " x ", 1)
        case["mutation"] = mut
        if mut in ("drop", "dup"):
            pass
    n_sizes = draw(st.integers(1, 3))
    case["chunk_sizes"] = [draw(st.lists(st.integers(1, 64), min_size=1, max_size=40)) for _ in range(n_sizes)]
    if draw(st.integers(0, 9)) == 0:
        case["chunk_sizes"].append([1])
    return case


def sub_small(acc, shard, nshards, tier, seed):
    n = 60 if tier == "quick" else 1500
    hyp_run(acc, case_st(), lambda c: check_case(acc, c), max_examples=n,
            seed=shard_seed(seed, shard), is_known=known().matches)


def sub_big(acc, shard, nshards, tier, seed):
    n = 150 if tier == "quick" else 4000
    hyp_run(acc, case_st(big=True), lambda c: check_case(acc, c), max_examples=n,
            seed=shard_seed(seed, shard, 3), is_known=known().matches)


@st.composite
def large_st(draw):
    case = draw(case_st())
    if case["fmt"] != 2:
        case = {**case, "fmt": 2, "table": [], "lines": []}
    case["bulk"] = {"n": draw(st.sampled_from([400, 1500, 1500, 3000, 6000])), "salt": draw(st.integers(0, 10 ** 6))}
    case["exhaustive_chunks"] = False
    # the reader's own buffer size and its neighbours, sizes far below and above it, and a ragged schedule
    case["chunk_sizes"] = [[16 * 1024], [4096], [16 * 1024 - 1, 16 * 1024 + 1], [1000], [1 << 20],
                           draw(st.lists(st.integers(1, 40000), min_size=1, max_size=12))]
    return case


def sub_large(acc, shard, nshards, tier, seed):
    n = 6 if tier == "quick" else 120
    hyp_run(acc, large_st(), lambda c: check_case(acc, c), max_examples=n,
            seed=shard_seed(seed, shard, 5), is_known=known().matches)


def sub_static(acc, shard, nshards, tier, seed):
    """The two inventory files shipped with the test-suite, under random chunkings."""
    import os

    for fn, fmt in (("objects_v1.inv", 1), ("objects_v2.inv", 2)):
        path = os.path.join("/repo/tests/static", fn)
        if not os.path.exists(path):
            acc.notes.append(f"{path} missing")
            continue
        data = open(path, "rb").read()
        kind, ref = sphinx_reference(data)
        from myst_parser import inventory

        s0, g0 = myst_load(io.BytesIO(data))
        if s0 == "ok" and kind == "ok" and _norm_sphinx(inventory.to_sphinx(g0)) != ref:
            d = _diff(ref, _norm_sphinx(inventory.to_sphinx(g0)))
            acc.violations.append(acc.violation("C18:static-file-differs-from-sphinx:" + d[0], fn, d[1], d[2]))
        import random

        rng = random.Random(seed * 7919 + shard)  # deterministic in VERIF_SEED
        for k in range(40 if tier == "quick" else 400):
            sizes = [rng.randint(1, 64) for _ in range(rng.randint(1, 50))]
            s2, g2 = myst_load(Chunked(data, sizes))
            acc.case((fn, sizes), True, ["static:" + fn], sample={"file": fn, "chunk_sizes": sizes[:10]})
            if (s2, g2 if s2 == "ok" else type(g2).__name__) != (s0, g0 if s0 == "ok" else type(g0).__name__):
                acc.violations.append(acc.violation("C18:static-file-result-depends-on-chunking", {"file": fn, "sizes": sizes},
                                                    "same as unchunked", repr(g2)[:200]))
                break


def plan(tier):
    return [Sub("small", sub_small, 16), Sub("big", sub_big, 12 if tier == "quick" else 16),
            Sub("static", sub_static, 2), Sub("large", sub_large, 6 if tier == "quick" else 16)]


def replay(sub, input):
    if sub == "static":
        from myst_parser import inventory  # noqa: F401

        data = open("/repo/tests/static/" + input["file"], "rb").read()
        s0, g0 = myst_load(io.BytesIO(data))
        s2, g2 = myst_load(Chunked(data, input["sizes"]))
        if (s2, g2 if s2 == "ok" else type(g2).__name__) != (s0, g0 if s0 == "ok" else type(g0).__name__):
            return [Acc(PROPERTY, sub).violation("C18:static-file-result-depends-on-chunking", input, "same", "differs")]
        return []
    return check_case(None, input)
