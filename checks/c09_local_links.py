"""C09 - local '#target' links resolve to the right node or warn exactly once."""

from __future__ import annotations

import re
from urllib.parse import quote

from hypothesis import strategies as st

from vlib import front
from vlib.core import Acc, Sub, hyp_run, shard_seed
from vlib.findings import Known

PROPERTY = "C09"
RULE = (
    "Hypothesis documents with a drawn set of explicit targets of 9 kinds ('(name)=' before a paragraph / before a "
    "heading, '{#id}' on a paragraph / heading / inline span, directive :name: on a note / a titled admonition / a "
    "captioned figure, labelled math block, and untitled named containers - note, list, block quote - that contain a titled "
    "element), headings with duplicate and suffix-colliding titles under heading_anchors "
    "0-4, and '#' links in four spellings ('[t](#x)', '[](#x)', '<project:#x>', '[t](<#x>)') to existing explicit "
    "names, to heading slugs, to names that are both (explicit must win), to headings deeper than the anchor depth, to "
    "missing and case-variant names; targets and links are placed at top level, in block quotes, list items, "
    "admonition bodies and (links) table cells. The generator knows the node each link must hit (by marker word / "
    "heading index; slugs by an independent model of the uniqueness rule over simple titles). Oracle after the "
    "transform pipeline: refid in the ids of the expected node; empty text filled with the target's title (section "
    "title, admonition title, figure caption) or '#name'; a missing target keeps the reference and its explicit text "
    "and yields exactly one myst.xref_missing warning naming it at the link's line; number of '#' reference nodes = "
    "number of links written. Both front ends (Sphinx: read_doc + post-transforms). Non-trivial: >= 1 resolving and "
    ">= 1 missing link, or an explicit/slug name clash; distinct by case."
)
ASSUMPTIONS = [
    "each link sits in a one-line paragraph (inline tokens only carry their block's first line)",
    "the displayed text of an empty-text link to a missing target is unconstrained (pinned by "
    "tests/test_renderers/fixtures/docutil_link_resolution.md: the reference is kept without text)",
    "case-variant and duplicate explicit names get the weak check 'right node or exactly one warning, never another node'",
]
FLOOR = {"quick": 300, "thorough": 6000}

EXTS = ["attrs_block", "attrs_inline", "colon_fence", "dollarmath", "deflist"]
TARGET_KINDS = ["tgt_para", "tgt_head", "attr_para", "attr_span", "attr_head", "dir_note", "dir_admon", "dir_figure", "math",
                "dir_note_nested", "tgt_list_nested", "attr_quote_nested", "tgt_bare"]
# names that have to be percent-encoded inside a link destination (only the '(name)=' kinds can carry them)
SPECIAL_NAMES = ["name with spaces", "\u00fcberblick"]
SPECIAL_KINDS = ["tgt_para", "tgt_head", "tgt_bare"]
NAMES = ["alpha", "beta-gamma", "t1", "x-y-z", "note1", "alpha-1", "delta", "fig-a", "eq1", "zeta",
         # names whose docutils *identifier* differs from the name as written (links use the name)
         "fig_one", "sec:intro"]
TITLES = ["Alpha", "alpha", "Beta gamma", "Alpha 1", "Delta", "Other title"]
WRAPS = [None, None, None, "quote", "list", "note"]
LINK_WRAPS = [None, None, "quote", "list", "note", "cell"]
FORMS = ["text", "empty", "project", "angle"]

_known = None


def known() -> Known:
    global _known
    if _known is None:
        _known = Known(PROPERTY)
    return _known


def slugify_simple(title: str) -> str:
    return re.sub(r"[^a-z0-9\- ]", "", title.lower()).replace(" ", "-")


def wrap(lines, w):
    if w is None:
        return lines
    if w == "quote":
        return [("> " + ln) if ln else ">" for ln in lines]
    if w == "list":
        return [("- " + ln) if i == 0 else (("  " + ln) if ln else "") for i, ln in enumerate(lines)]
    if w == "note":
        return ["`````{tip}"] + lines + ["`````"]
    if w == "cell":
        assert len(lines) == 1
        return [f"| {lines[0]} | c |", "|---|---|", "| d | e |"]
    raise ValueError(w)


def build(case):
    """-> (text, info)"""
    out = []      # list of blocks (list of lines)
    targets = {}  # name -> list of {"marker", "kind", "title"}
    headings = []  # {"level", "title", "slug" | None}
    links = []    # {"word", "form", "to", "line", "marker"}
    taken = []
    depth = case["anchors"]
    n_t = n_l = 0

    def cur_line():
        return sum(len(b) for b in out) + len(out) + 1

    for b in case["blocks"]:
        t = b["t"]
        if t == "heading":
            title = b["title"]
            slug = None
            if b["level"] <= depth:
                base = slug = slugify_simple(title)
                i = 1
                while slug in taken:
                    slug = f"{base}-{i}"
                    i += 1
                taken.append(slug)
            headings.append({"level": b["level"], "title": title, "slug": slug, "wrapped": bool(b.get("wrap"))})
            if b.get("wrap"):
                # a heading inside a container becomes a rubric; it still gets an anchor slug
                out.append(wrap(["lead text", "", "#" * b["level"] + " " + title], b["wrap"]))
            else:
                out.append(["#" * b["level"] + " " + title])
                out.append([f"Hp{len(headings) - 1}x"])
        elif t == "target":
            name, kind = b["name"], b["kind"]
            mk = f"Tg{n_t}x"
            n_t += 1
            title = None
            if kind == "tgt_para":
                lines = [f"({name})=", f"{mk} paragraph"]
                tag = "paragraph"
            elif kind == "tgt_head":
                lines = [f"({name})=", f"## {mk} heading"]
                tag, title = "section", f"{mk} heading"
                headings.append({"level": 2, "title": f"{mk} heading", "slug": None, "synthetic": True})
            elif kind == "tgt_bare":
                # a target that no following block can take over (a comment follows): the target node itself is the target
                lines = [f"({name})=", "% a comment, not content"]
                tag, mk = "target", name
            elif kind == "attr_para":
                lines = ["{#" + name + "}", f"{mk} paragraph"]
                tag = "paragraph"
            elif kind == "attr_span":
                lines = [f"before [{mk} span]" + "{#" + name + "} after"]
                tag = "inline"
            elif kind == "attr_head":
                lines = ["{#" + name + "}", f"## {mk} heading"]
                tag, title = "section", f"{mk} heading"
                headings.append({"level": 2, "title": f"{mk} heading", "slug": None, "synthetic": True})
            elif kind == "dir_note":
                lines = ["```{note}", f":name: {name}", f"{mk} body", "```"]
                tag = "note"
            elif kind == "dir_note_nested":
                # an untitled named container that *contains* a titled element: the link text is still '#name'
                lines = ["````{note}", f":name: {name}", f"{mk} body", "", "```{admonition} Inner title", "inner", "```", "````"]
                tag = "note"
            elif kind == "tgt_list_nested":
                lines = [f"({name})=", f"- {mk} item", "", "  ```{admonition} Inner title", "  inner", "  ```"]
                tag = "bullet_list"
            elif kind == "attr_quote_nested":
                lines = ["{#" + name + "}", f"> {mk} quote", ">", "> ```{figure} img.png", ">", "> Inner caption", "> ```"]
                tag = "block_quote"
            elif kind == "dir_admon":
                lines = [f"```{{admonition}} {mk} title", f":name: {name}", "body", "```"]
                tag, title = "admonition", f"{mk} title"
            elif kind == "dir_figure":
                lines = ["```{figure} img.png", f":name: {name}", "", f"{mk} caption", "```"]
                tag, title = "figure", f"{mk} caption"
            elif kind == "math":
                lines = ["$$", f"a = {n_t}", f"$$ ({name})"]
                tag, mk = "math_block", f"a = {n_t}"
            else:
                raise ValueError(kind)
            if kind in ("tgt_head", "attr_head"):
                # synthetic headings also take part in the slug table when inside the anchor depth
                h = headings[-1]
                if 2 <= depth:
                    base = slug = slugify_simple(h["title"])
                    i = 1
                    while slug in taken:
                        slug = f"{base}-{i}"
                        i += 1
                    taken.append(slug)
                    h["slug"] = slug
                w = None
            elif kind.endswith("_nested"):
                w = None     # (already containers themselves: kept at top level so the marked node is unambiguous)
            else:
                w = b.get("wrap")
            targets.setdefault(name, []).append({"marker": mk, "kind": kind, "tag": tag, "title": title})
            out.append(wrap(lines, w))
        elif t == "link":
            word = f"w{n_l}q"
            mk = f"Lk{n_l}x"
            n_l += 1
            to, form = b["to"], b["form"]
            enc = quote(to, safe="-") if to in SPECIAL_NAMES else to      # as an author has to write it
            if form == "text":
                s = f"[{mk}](#{enc})"
            elif form == "empty":
                s = f"[](#{enc})"
            elif form == "project":
                s = f"<project:#{enc}>"
            else:
                s = f"[{mk}](<#{to}>)"
            w = b.get("wrap")
            lines = wrap([f"{word} {s} end"], w)
            line = cur_line() + (1 if w == "note" else 0)
            links.append({"word": word, "form": form, "to": to, "line": line, "marker": mk, "wrap": w})
            out.append(lines)
        else:
            out.append(["Filler paragraph."])
    text = "\n\n".join("\n".join(b) for b in out) + "\n"
    return text, {"targets": targets, "headings": headings, "links": links}


def find_marker_node(doc, marker, tag):
    """Smallest node with the given tagname whose text contains the marker."""
    from docutils import nodes

    best = None
    if tag == "target":
        want = nodes.fully_normalize_name(marker)
        return next((n for n in doc.findall(nodes.target) if want in n.get("names", []) or want in n.get("dupnames", [])), None)
    for n in doc.findall(lambda n: isinstance(n, nodes.Element) and n.tagname == tag):
        if tag == "section":
            # the marker is part of the title; links with empty text may show it elsewhere
            if len(n) and isinstance(n[0], nodes.title) and marker in n[0].astext():
                return n
            continue
        if marker in n.astext():
            if best is None or len(n.astext()) < len(best.astext()):
                best = n
    return best


def check_case(acc, case, project=None) -> list[dict]:
    from docutils import nodes

    mk = (acc or Acc(PROPERTY, "replay")).violation
    text, info = build(case)
    frontend = "sphinx" if project is not None or case.get("frontend") == "sphinx" else "docutils"
    try:
        if frontend == "docutils":
            doc, warn = front.docutils_publish(text, settings={"myst_enable_extensions": EXTS,
                                                               "myst_heading_anchors": case["anchors"]})
        else:
            own = None
            if project is None:
                own = project = front.SphinxProject()
            try:
                project.app.env.myst_config = project.app.env.myst_config.copy(
                    enable_extensions=EXTS, heading_anchors=case["anchors"])
                doc, warn = project.read_doc("index", text)
            finally:
                if own is not None:
                    own.close()
    except Exception as exc:  # noqa: BLE001
        return [mk(f"C09:render-raises:{type(exc).__name__}", case, "document", f"{type(exc).__name__}: {exc}")]
    vs = []
    targets, headings, links = info["targets"], info["headings"], info["links"]
    secs = list(doc.findall(nodes.section))
    rubs = [r for r in doc.findall(nodes.rubric) if "level" in r]
    slug_to_idx = {h["slug"]: i for i, h in enumerate(headings) if h["slug"]}
    if len(secs) != sum(1 for h in headings if not h.get("wrapped")) or len(rubs) != sum(1 for h in headings if h.get("wrapped")):
        vs.append(mk("C09:harness-section-count", case, [bool(h.get("wrapped")) for h in headings], [len(secs), len(rubs)]))
        return vs
    si = iter(secs)
    ri = iter(rubs)
    sections = [next(ri) if h.get("wrapped") else next(si) for h in headings]  # heading index -> its node, in source order

    # collect '#' reference nodes by their marker word
    refs = {}
    n_refs = 0
    cand = list(doc.findall(nodes.reference))
    if frontend == "sphinx":
        from sphinx import addnodes

        cand += list(doc.findall(addnodes.pending_xref))
    for rn in cand:
        idx = rn.parent.index(rn)
        prev = rn.parent[idx - 1] if idx > 0 else None
        m = re.search(r"(w\d+q)\s*$", str(prev)) if isinstance(prev, nodes.Text) else None
        if m:
            n_refs += 1
            refs.setdefault(m.group(1), []).append(rn)
    if n_refs != len(links):
        vs.append(mk("C09:link-count", case, len(links), n_refs))
    wl = [w for w in front.warning_lines(warn) if "[myst.xref_missing]" in w]

    def n_warn(lk):
        """warnings naming this link's target at this link's line (links sit in one-line paragraphs)"""
        if frontend == "sphinx" and lk["wrap"] == "cell":
            # (known finding: in the Sphinx front end the warning for a link in a table cell carries no line, or a stale
            # one): count the warnings that name the target and do not sit at the line of another, non-cell link to it
            others = {str(o["line"]) for o in links if o is not lk and o["to"] == lk["to"] and o["wrap"] != "cell"}
            pat = re.compile(r"^(?:.*?):(\d*): .*target not found: " + re.escape(repr(lk["to"])))
            return sum(1 for w in wl if (m := pat.search(w)) and m.group(1) not in others)
        pat = re.compile(r"^(?:.*?):" + str(lk["line"]) + r": .*target not found: " + re.escape(repr(lk["to"])))
        return sum(1 for w in wl if pat.search(w))
    expected_missing = []
    resolving = missing = clash = 0
    for lk in links:
        rns = refs.get(lk["word"], [])
        if len(rns) != 1:
            vs.append(mk("C09:link-dropped-or-duplicated", case, f"one reference after {lk['word']}", len(rns)))
            continue
        rn = rns[0]
        to = lk["to"]
        explicit_text = lk["form"] in ("text", "angle")
        tlist = targets.get(to, [])
        shown = rn.astext()
        if isinstance(rn, nodes.reference):
            for sm in rn.findall(nodes.system_message):
                shown = shown.replace(sm.astext(), "")
        shown = shown.strip()
        if frontend == "sphinx" and any(tg["kind"] == "math" for tg in tlist):
            # a labelled equation is a Sphinx math-domain object, not one of the explicit-target kinds of the statement
            continue
        if len(tlist) == 1:
            tg = tlist[0]
            if to in slug_to_idx:
                clash += 1
            node = find_marker_node(doc, tg["marker"], tg["tag"])
            if node is None:
                vs.append(mk("C09:harness-target-node-not-found", case, tg, None))
                continue
            resolving += 1
            ok_ids = list(node["ids"])
            if tg["kind"] == "dir_figure":
                # docutils puts a figure's :name: on the image inside it, Sphinx on the figure itself
                for sub in node.findall(nodes.image):
                    ok_ids += sub["ids"]
            if rn.get("refid") not in ok_ids:
                vs.append(mk("C09:explicit-target-not-hit", case, {"link": lk["word"], "to": to, "ids": ok_ids, "kind": tg["kind"]},
                             {"refid": rn.get("refid"), "refuri": rn.get("refuri")}))
                continue
            want = lk["marker"] if explicit_text else (tg["title"] or "#" + to)
            if tg["kind"] == "dir_figure" and not explicit_text and rn.get("refid") not in node["ids"]:
                want = "#" + to  # the image has no caption of its own
            if shown != want:
                vs.append(mk("C09:link-text", case, {"link": lk["word"], "text": want, "kind": tg["kind"]}, shown))
        elif len(tlist) > 1:
            # duplicate explicit name: weak check
            ok_ids = set()
            for tg in tlist:
                node = find_marker_node(doc, tg["marker"], tg["tag"])
                if node is not None:
                    ok_ids |= set(node["ids"])
            if to in slug_to_idx:
                ok_ids |= set(sections[slug_to_idx[to]]["ids"])
            n_w = n_warn(lk)
            if n_w >= 1:
                expected_missing.append(None)
            elif rn.get("refid") in ok_ids:
                pass
            else:
                vs.append(mk("C09:duplicate-name-link-points-elsewhere", case, sorted(ok_ids), rn.get("refid")))
        elif to in slug_to_idx:
            sec = sections[slug_to_idx[to]]
            resolving += 1
            if rn.get("refid") not in sec["ids"]:
                vs.append(mk("C09:heading-slug-not-hit", case, {"link": lk["word"], "to": to, "heading": slug_to_idx[to], "ids": sec["ids"]},
                             {"refid": rn.get("refid")}))
                continue
            want = lk["marker"] if explicit_text else headings[slug_to_idx[to]]["title"]
            if shown != want:
                vs.append(mk("C09:link-text", case, {"link": lk["word"], "text": want, "kind": "heading"}, shown))
        else:
            missing += 1
            low = to.lower()
            if low != to and (low in targets or low in slug_to_idx):
                # case variant: right node or exactly one warning
                ok_ids = set()
                for tg in targets.get(low, []):
                    node = find_marker_node(doc, tg["marker"], tg["tag"])
                    if node is not None:
                        ok_ids |= set(node["ids"])
                if low in slug_to_idx:
                    ok_ids |= set(sections[slug_to_idx[low]]["ids"])
                # (Sphinx: the line-less warnings of several table-cell links to one target cannot be told apart; the count
                # of warnings per target is still checked below)
                twin_cells = frontend == "sphinx" and lk["wrap"] == "cell" and any(
                    o is not lk and o["to"] == lk["to"] and o["wrap"] == "cell" for o in links)
                if rn.get("refid") in ok_ids and (n_warn(lk) == 0 or twin_cells):
                    continue
            expected_missing.append((lk["line"], to))
            n_w = [w for w in wl if repr(to) in w]
            if explicit_text and lk["marker"] not in shown:
                vs.append(mk("C09:missing-target-link-lost-its-text", case, lk["marker"], shown))
    # warnings: exactly one per missing link, at its line
    exp = sorted(x for x in expected_missing if x is not None)
    n_weak = sum(1 for x in expected_missing if x is None)
    got = []
    for w in wl:
        m = re.match(r"^(?:.*?):(\d*): .*target not found: '(.*)' \[myst", w)
        got.append((int(m.group(1)) if m.group(1) else None, m.group(2)) if m else (None, w))
    if n_weak == 0:
        if sorted(t for _l, t in got) != sorted(t for _l, t in exp):
            vs.append(mk("C09:xref-missing-warning-count", case, exp, got))
        elif sorted(got, key=str) != sorted(exp, key=str):
            cell_lines = {(lk["line"], lk["to"]) for lk in links if lk["wrap"] == "cell"}
            wrong = set(exp) - set(got)
            if frontend == "sphinx" and wrong and wrong <= cell_lines:
                # known: Sphinx front end, link inside a table cell (cell paragraphs carry line 0)
                vs.append(mk("C09:xref-missing-warning-line:sphinx-table-cell", case, sorted(exp, key=str), sorted(got, key=str)))
            else:
                vs.append(mk("C09:xref-missing-warning-line", case, sorted(exp, key=str), sorted(got, key=str)))
    if acc is not None:
        acc.case(case, (resolving >= 1 and missing >= 1) or clash >= 1,
                 [f"frontend:{frontend}", f"anchors:{case['anchors']}"] + (["clash"] if clash else [])
                 + sorted({"kind:" + t["kind"] for ts in targets.values() for t in ts})
                 + sorted({"form:" + lk["form"] for lk in links}) + sorted({"linkwrap:" + str(lk["wrap"]) for lk in links}),
                 sample={"text": text})
    out, seen = [], set()
    for v in vs:
        if v["signature"] not in seen:
            seen.add(v["signature"])
            out.append(v)
    return out


# --------------------------------------------------------------------------- strategies


@st.composite
def case_st(draw):
    depth = draw(st.sampled_from([0, 1, 2, 2, 3, 4]))
    n_tg = draw(st.integers(0, 5))
    names = draw(st.lists(st.sampled_from(NAMES), min_size=n_tg, max_size=n_tg, unique=draw(st.integers(0, 9)) != 0))
    blocks = []
    for nm in names:
        blocks.append({"t": "target", "kind": draw(st.sampled_from(TARGET_KINDS)), "name": nm,
                       "wrap": draw(st.sampled_from(WRAPS))})
    specials = draw(st.lists(st.sampled_from(SPECIAL_NAMES), max_size=2, unique=True)) if draw(st.integers(0, 2)) == 0 else []
    for nm in specials:
        blocks.append({"t": "target", "kind": draw(st.sampled_from(SPECIAL_KINDS)), "name": nm, "wrap": draw(st.sampled_from(WRAPS))})
    names = list(names) + specials
    for _ in range(draw(st.integers(0, 5))):
        blocks.append({"t": "heading", "level": draw(st.integers(1, 3)), "title": draw(st.sampled_from(TITLES)),
                       "wrap": draw(st.sampled_from([None, None, None, "quote", "list", "note"]))})
    for _ in range(draw(st.integers(0, 2))):
        blocks.append({"t": "filler"})
    blocks = draw(st.permutations(blocks))
    # link destinations: existing names, plausible slugs, missing, case variants
    pool = list(names) + ["alpha", "alpha-1", "alpha-2", "alpha-1-1", "beta-gamma", "delta", "other-title", "missing", "nope",
                          "Alpha", "DELTA", "T1"]
    links = []
    for _ in range(draw(st.integers(1, 7))):
        links.append({"t": "link", "form": draw(st.sampled_from(FORMS)), "to": draw(st.sampled_from(pool)),
                      "wrap": draw(st.sampled_from(LINK_WRAPS))})
    blocks = list(blocks)
    for lk in links:
        blocks.insert(draw(st.integers(0, len(blocks))), lk)
    return {"anchors": depth, "blocks": blocks}


def sub_random(acc, shard, nshards, tier, seed):
    n = 200 if tier == "quick" else 5000
    hyp_run(acc, case_st(), lambda c: check_case(acc, c), max_examples=n,
            seed=shard_seed(seed, shard, 9), is_known=known().matches)


def sub_sphinx(acc, shard, nshards, tier, seed):
    n = 60 if tier == "quick" else 1200
    with front.sphinx_project() as project:
        hyp_run(acc, case_st(), lambda c: check_case(acc, c, project), max_examples=n,
                seed=shard_seed(seed, shard, 10), is_known=known().matches)


def sub_each(acc, shard, nshards, tier, seed):
    """Every target kind x target wrapper x link form x link wrapper, plus slug targets, exhaustively."""
    kn = known()
    i = 0
    for kind in TARGET_KINDS:
        for tw in [None, "quote", "list", "note"]:
            for form in FORMS:
                for lw in [None, "quote", "list", "note", "cell"]:
                    for order in (0, 1):
                        i += 1
                        if i % nshards != shard:
                            continue
                        tg = {"t": "target", "kind": kind, "name": "alpha", "wrap": tw}
                        lk = {"t": "link", "form": form, "to": "alpha", "wrap": lw}
                        lk2 = {"t": "link", "form": form, "to": "missing", "wrap": lw}
                        hd = {"t": "heading", "level": 1, "title": "Alpha"}
                        blocks = [hd, tg, lk, lk2] if order == 0 else [lk, lk2, tg, hd]
                        case = {"anchors": 2, "blocks": blocks}
                        for v in check_case(acc, case):
                            if kn.matches(v):
                                acc.known_hits[v["signature"]] += 1
                            elif len(acc.violations) < 8 and all(v["signature"] != x["signature"] for x in acc.violations):
                                acc.violations.append(v)
    # names that must be percent-encoded in the destination x the kinds that can carry them x every link form / wrapper
    for nm in SPECIAL_NAMES:
        for kind in SPECIAL_KINDS:
            for form in FORMS:
                for lw in [None, "quote", "list", "note", "cell"]:
                    for order in (0, 1):
                        i += 1
                        if i % nshards != shard:
                            continue
                        tg = {"t": "target", "kind": kind, "name": nm, "wrap": None}
                        lk = {"t": "link", "form": form, "to": nm, "wrap": lw}
                        hd = {"t": "heading", "level": 1, "title": "Alpha"}
                        blocks = [hd, tg, lk] if order == 0 else [lk, tg, hd]
                        for v in check_case(acc, {"anchors": 2, "blocks": blocks}):
                            if kn.matches(v):
                                acc.known_hits[v["signature"]] += 1
                            elif len(acc.violations) < 8 and all(v["signature"] != x["signature"] for x in acc.violations):
                                acc.violations.append(v)
    # a heading inside each container kind, linked by its slug, with a later duplicate title at top level
    for hw in ["quote", "list", "note"]:
        for form in FORMS:
            for lw in [None, "quote", "list", "note", "cell"]:
                for dup_first in (False, True):
                    i += 1
                    if i % nshards != shard:
                        continue
                    inner = {"t": "heading", "level": 2, "title": "Delta", "wrap": hw}
                    top = {"t": "heading", "level": 1, "title": "Delta"}
                    blocks = ([top, inner] if dup_first else [inner, top]) + [
                        {"t": "link", "form": form, "to": "delta", "wrap": lw},
                        {"t": "link", "form": form, "to": "delta-1", "wrap": lw},
                        {"t": "link", "form": form, "to": "delta-2", "wrap": lw}]
                    for v in check_case(acc, {"anchors": 3, "blocks": blocks}):
                        if kn.matches(v):
                            acc.known_hits[v["signature"]] += 1
                        elif len(acc.violations) < 8 and all(v["signature"] != x["signature"] for x in acc.violations):
                            acc.violations.append(v)
    acc.exhaustive = True


def plan(tier):
    return [Sub("each", sub_each, 8), Sub("random", sub_random, 16), Sub("sphinx", sub_sphinx, 4 if tier == "quick" else 16)]


def replay(sub, input):
    case = dict(input)
    if sub == "sphinx":
        case["frontend"] = "sphinx"
    return check_case(None, case)
